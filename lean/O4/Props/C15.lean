import O4.Lemmas.ScrambleSuit
import O4.Lemmas.ScrambleSuitPackets
import O4.Generated.Facts.Scramblesuit
import O4.Generated.Facts.Probdist
import O4.Generated.Facts.Uniformdh
/-!
# C15 — ScrambleSuit client: handshake, stream and tickets work for every segmentation

Property theorems only (model: `O4/Model/ScrambleSuit.lean`, helper lemmas:
`O4/Lemmas/ScrambleSuit.lean`).  All constants are the ones regenerated from the Go tree.
Cryptography is abstract (`Prims`); hypotheses on it are explicit and shown satisfiable by the
`example`s (toy primitives), MAC claims are in reduction form with explicit witnesses.
-/
namespace C15
open O4 O4.SS O4.Consts.Scramblesuit

/-! ## toy primitives for the non-vacuity examples -/

/-- a "MAC" that only depends on the lengths (enough to exhibit the hypotheses) -/
def toyPrims : Prims :=
  { hmac := fun k m => List.replicate 32 (UInt8.ofNat (k.length + m.length))
    sha256 := fun m => m.take 32
    hkdfExpand := fun prk n => List.replicate n (prk.getD 0 0)
    ctrXor := fun _ _ _ d => d.map (· ^^^ 0x5a)
    dhPublic := fun p => some p
    dhShared := fun _ q => some q }

theorem toy_macLen : MacLen toyPrims := by
  intro k m; simp [mac128, toyPrims]; decide

/-! ## the UniformDH response parser -/

/-- **Stable re-parser.** For a conforming server stream (response with any padding length
`0 … dhMaxPadLength`, followed by any surplus `T`) and EVERY way `cs` of cutting it into
segments, the client's read loop completes with the seed derived from its Diffie-Hellman
result, leaves exactly the surplus (what is in `receiveBuffer` plus the segments not read yet
is `T`), and never reads past the segment in which the response ended. -/
theorem response_any_split (P : Prims) (kB priv pubX cpad Y pad T ss : Bytes) (hour : Int)
    (c : Conf P kB priv (epochHourBytes hour) Y pad T ss) (cs : List Bytes)
    (hcs : cs.flatten = serverResponse P kB Y pad hour ++ T) :
    ∃ rest unread,
      dhLoop P true ((DhHs.new kB priv pubX).generate P cpad hour).1 [] cs = .done (P.sha256 ss) rest unread ∧
      rest ++ unread.flatten = T ∧ unread <:+ cs := by
  have hpos : ([] : Bytes).length < (respOf P kB (epochHourBytes hour) Y pad).length := by
    rw [respOf_length c.macLen]; have := c_mac_pos; simp only [List.length_nil]; omega
  exact dhLoop_conforming c cs [] _ ⟨rfl, rfl, rfl, Or.inl rfl⟩ (by simpa [serverResponse_eq] using hcs) hpos

/-- the hypotheses of `response_any_split` are satisfiable: a 3-byte padding, 5 surplus bytes -/
example : Conf toyPrims (List.replicate 20 1) [9] (epochHourBytes 480000) (List.replicate 192 0) [0, 0, 0]
    [1, 2, 3, 4, 5] (List.replicate 192 0) :=
  { macLen := toy_macLen, hY := by rfl, hpad := by decide, hfirst := by decide +kernel, hss := rfl }

/-- both ends derive the same master secret when the Diffie-Hellman function commutes
    (`X^y = Y^x`), hence (`serverKeys`) mirrored session keys -/
theorem seeds_agree (P : Prims) (priv pubX spriv Y ss : Bytes)
    (hcomm : P.dhShared spriv pubX = P.dhShared priv Y) (hss : P.dhShared priv Y = some ss) :
    (P.dhShared spriv pubX).map P.sha256 = some (P.sha256 ss) ∧
    ∀ seed, serverKeys P seed = ((initCrypto P seed).2, (initCrypto P seed).1) := by
  refine ⟨by rw [hcomm, hss]; rfl, fun seed => rfl⟩

/-- **F3, the code before the repair.** With the length test `len(resp) < pos + 2*macLength`
(no `uniformdh.Size`), a first segment that ends inside the trailing MAC of a conforming response
makes the parser slice beyond the received bytes: for EVERY conforming stream and every cut in
the last `macLength` bytes (at or after `minHandshakeLength`) the client panics instead of
waiting. So `response_any_split` is false of that code. -/
theorem split_counterexample (P : Prims) (kB priv pubX cpad Y pad T ss : Bytes) (hour : Int)
    (c : Conf P kB priv (epochHourBytes hour) Y pad T ss) (k : Nat)
    (hmin : minHandshakeLength ≤ k)
    (hin : (serverResponse P kB Y pad hour).length - macLength ≤ k)
    (hlt : k < (serverResponse P kB Y pad hour).length) :
    dhLoop P false ((DhHs.new kB priv pubX).generate P cpad hour).1 []
      [(serverResponse P kB Y pad hour ++ T).take k, (serverResponse P kB Y pad hour ++ T).drop k] = .panic := by
  rw [serverResponse_eq] at *
  have hk : k ≤ (respOf P kB (epochHourBytes hour) Y pad ++ T).length := by
    rw [List.length_append]; omega
  have hl : ((respOf P kB (epochHourBytes hour) Y pad ++ T).take k).length = k := by
    rw [List.length_take]; omega
  obtain ⟨hs', hc, hi'⟩ := cache_prefix c (hs := ((DhHs.new kB priv pubX).generate P cpad hour).1)
    ⟨rfl, rfl, rfl, Or.inl rfl⟩ k hmin hk
  have hp := parseTail_prefix_panics c hi' k hk hmin hin hlt
  simp only [dhLoop, List.nil_append, DhHs.parse, hl, if_neg (Nat.not_lt.mpr hmin), hc, hp]

/-- the counterexample is not vacuous: padding 3, first segment = all but the last byte -/
example : (serverResponse toyPrims (List.replicate 20 1) (List.replicate 192 0) [0, 0, 0] 480000).length = 227 ∧
    minHandshakeLength ≤ 226 := by
  constructor
  · decide +kernel
  · decide

/-! ## no panic, bounded buffer (needed by C10) -/

/-- **No panic.** The repaired parser never slices out of bounds: for every state and EVERY
input (conforming or not) the outcome is not `panic`. -/
theorem no_panic_response (P : Prims) (hs : DhHs) (resp : Bytes) :
    (hs.parse P true resp).2 ≠ .panic := by
  have h1 := c_min
  have h2 := c_mac_le
  unfold DhHs.parse
  split
  · simp
  · rename_i hlen
    have hd : dhSize ≤ resp.length := by omega
    cases hc : hs.cache P resp with
    | none =>
      exfalso
      unfold DhHs.cache at hc
      split at hc
      · simp at hc
      · rw [slice?_eq (Nat.zero_le _) hd] at hc
        simp at hc
    | some r =>
      obtain ⟨hs', y⟩ := r
      exact parseTail_no_panic P hs' y resp (by omega)

/-! ## the packet reader -/

theorem toy_streamOK (k : DirKeys) : StreamOK toyPrims k :=
  { len := fun _ d => by simp [xorAt, toyPrims]
    invol := fun _ d => by
      simp only [xorAt, toyPrims, List.map_map]
      conv => rhs; rw [← List.map_id d]
      apply List.map_congr_left
      intro x _
      simp only [Function.comp, id]
      rw [UInt8.xor_assoc, UInt8.xor_self, UInt8.xor_zero]
    split := fun _ a b => by simp [xorAt, toyPrims] }

/-- **Any chunking = any other chunking.** For EVERY byte stream (honest or not), from any state
in which the reader waits for input, two segmentations of the same stream leave the reader in
the same state with the same outputs (payload bytes, tickets, seeds, error) and the same
residue in `receiveBuffer`. -/
theorem packets_chunk_invariant (P : Prims) (k : DirKeys) (s : Rx) (buf : Bytes)
    (hq : (rxMachine P k).Quiescent s buf) (cs cs' : List Bytes) (h : cs.flatten = cs'.flatten) :
    feedChunks P k s buf cs = feedChunks P k s buf cs' := by
  obtain ⟨r1, q1⟩ := feedChunks_whole P k cs s buf (Or.inr hq)
  obtain ⟨r2, q2⟩ := feedChunks_whole P k cs' s buf (Or.inr hq)
  rw [h] at r1
  obtain ⟨ho, hs, hb⟩ := Machine.Runs.det (rxMachine P k) r1 q1 r2 q2
  exact Prod.ext hs (Prod.ext ho hb)

example : (rxMachine toyPrims ⟨[], [], []⟩).Quiescent (Rx.init 0) [] := idle_quiescent _ _ 0 []

/-- **Exact stream.** An honest sender's packets (any flags among payload / new-ticket /
PRNG-seed, any payload and padding lengths that fit) cut into ANY segments are decoded into
exactly those packets: `Read` hands out exactly the payload packets' bytes in order — ticket and
seed packets never surface —, nothing is left in the buffer and no error is raised. -/
theorem stream_exact (P : Prims) (k : DirKeys) (hm : MacLen P) (hx : StreamOK P k) (o : Nat)
    (pkts : List (Nat × Bytes × Nat)) (hok : ∀ x ∈ pkts, PktOK x.1 x.2.1 x.2.2)
    (cs : List Bytes) (hcs : cs.flatten = encodeAll P k o pkts) :
    (feedChunks P k (Rx.init o) [] cs).2.1 = pkts.map (fun x => dispatch x.1 x.2.1) ∧
    delivered (feedChunks P k (Rx.init o) [] cs).2.1 = payloadBytes pkts ∧
    (feedChunks P k (Rx.init o) [] cs).2.2 = [] ∧
    (feedChunks P k (Rx.init o) [] cs).1.failed = false := by
  obtain ⟨r1, q1⟩ := feedChunks_whole P k cs (Rx.init o) [] (Or.inr (idle_quiescent P k o []))
  obtain ⟨mb', r2⟩ := roundtrip P k hm hx pkts o [] [] hok
  rw [List.nil_append, hcs] at r1
  rw [List.append_nil, ← Rx.init_eq] at r2
  obtain ⟨ho, hs, hb⟩ := Machine.Runs.det (rxMachine P k) r1 q1 r2 (idle_quiescent P k _ mb')
  refine ⟨ho, by rw [ho]; exact delivered_honest pkts hok, hb, by rw [hs]; rfl⟩

/-- non-vacuity: the toy cipher is a `StreamOK`, toy tags have `macLength` bytes, and a payload, a
    ticket and a seed packet are `PktOK` -/
example : MacLen toyPrims ∧ StreamOK toyPrims ⟨[], [], []⟩ ∧ PktOK pktPayload [1, 2, 3] 4 ∧
    PktOK pktNewTicket (List.replicate 144 0) 0 ∧ PktOK pktPrngSeed (List.replicate 32 0) 9 :=
  ⟨toy_macLen, toy_streamOK _, ⟨by decide, by decide, by decide⟩,
   ⟨by decide +kernel, by decide, by decide +kernel⟩, ⟨by decide +kernel, by decide, by decide +kernel⟩⟩

/-- `(msg, tag)` verifies under `key` although no honest party MACed `msg` -/
def Forgery (P : Prims) (key : Bytes) (signed : List Bytes) (msg tag : Bytes) : Prop :=
  mac128 P key msg = tag ∧ msg ∉ signed

/-- the ciphertexts an honest sender MACs for a packet list sent from keystream offset `o` -/
def signedCts (P : Prims) (k : DirKeys) : Nat → List (Nat × Bytes × Nat) → List Bytes
  | _, [] => []
  | o, (f, d, p) :: r => pktCipher P k o f d p :: signedCts P k (o + (pktHdrLength + d.length + p)) r

/-- **Tampering is detected — reduction form.** The sender sends `pre ++ [(f,d,p)] ++ post`.
The reader receives, in ANY segmentation, the honest bytes of `pre` followed by an arbitrary
`wj` that does not start with the honest bytes of packet `(f,d,p)` (a modified, truncated,
replaced or spliced packet; everything after it is arbitrary too). Then the outputs are those of
`pre` followed by `os'`, and
* `os' = []` (the reader waits for more bytes) or `os' = [err]` (`ErrInvalidPacket`): in both
  cases `Read` delivered exactly the payload bytes of `pre` — a prefix of what was sent; or
* the reader accepted a first packet from `wj`, and then the explicit pair `tag = wj[:macLength]`,
  `msg = firstMsg …` (encrypted header and as many following bytes as the decrypted header
  announces) verifies under the receive HMAC key, differs from the honest packet, and is
  - a **forgery**: `msg` is none of the ciphertexts the sender ever MACed, or
  - a **misaligned replay**: `msg` is the ciphertext of *another* honest packet whose header,
    decrypted at this keystream position, happened to announce that packet's own length (the
    protocol MACs the ciphertext without a sequence number; single-bit modifications cannot
    produce this case, see `tamper_same_tag_collision`). -/
theorem tamper_detected (P : Prims) (k : DirKeys) (hm : MacLen P) (hx : StreamOK P k) (o : Nat)
    (pre post : List (Nat × Bytes × Nat)) (f : Nat) (d : Bytes) (p : Nat)
    (hok : ∀ x ∈ pre, PktOK x.1 x.2.1 x.2.2) (wj : Bytes)
    (hne : ¬ pktWire P k (offAfter o pre) f d p <+: wj)
    (cs : List Bytes) (hcs : cs.flatten = encodeAll P k o pre ++ wj) :
    ∃ os', (feedChunks P k (Rx.init o) [] cs).2.1 = pre.map (fun x => dispatch x.1 x.2.1) ++ os' ∧
      ((os' = [] ∨ os' = [.err]) ∧
          delivered (feedChunks P k (Rx.init o) [] cs).2.1 = payloadBytes pre
       ∨ ((firstTag wj ++ firstMsg P k (offAfter o pre) wj) <+: wj ∧
          mac128 P k.macKey (firstMsg P k (offAfter o pre) wj) = firstTag wj ∧
          firstTag wj ++ firstMsg P k (offAfter o pre) wj ≠ pktWire P k (offAfter o pre) f d p ∧
          (Forgery P k.macKey (signedCts P k o (pre ++ (f, d, p) :: post))
              (firstMsg P k (offAfter o pre) wj) (firstTag wj)
           ∨ (firstMsg P k (offAfter o pre) wj ∈ signedCts P k o (pre ++ (f, d, p) :: post) ∧
              firstMsg P k (offAfter o pre) wj ≠ pktCipher P k (offAfter o pre) f d p)))) := by
  obtain ⟨r1, q1⟩ := feedChunks_whole P k cs (Rx.init o) [] (Or.inr (idle_quiescent P k o []))
  obtain ⟨mb', r2⟩ := roundtrip P k hm hx pre o [] wj hok
  rw [List.nil_append, hcs] at r1
  rw [← Rx.init_eq] at r2
  obtain ⟨os', hos, r3⟩ := Machine.Runs.factor (rxMachine P k) r2 r1 q1
  refine ⟨os', hos, ?_⟩
  have hdel : os' = [] ∨ os' = [.err] →
      delivered (feedChunks P k (Rx.init o) [] cs).2.1 = payloadBytes pre := by
    intro h
    rw [hos, delivered_append, delivered_honest pre hok]
    rcases h with rfl | rfl <;> simp [delivered]
  rcases first_packet P k (offAfter o pre) mb' wj r3 with h | h | ⟨hpre, _, hmac, _⟩
  · exact Or.inl ⟨Or.inl h, hdel (Or.inl h)⟩
  · exact Or.inl ⟨Or.inr h, hdel (Or.inr h)⟩
  · refine Or.inr ⟨hpre, hmac, fun heq => hne (heq ▸ hpre), ?_⟩
    by_cases hin : firstMsg P k (offAfter o pre) wj ∈ signedCts P k o (pre ++ (f, d, p) :: post)
    · refine Or.inr ⟨hin, fun heq => hne ?_⟩
      have : pktWire P k (offAfter o pre) f d p = firstTag wj ++ firstMsg P k (offAfter o pre) wj := by
        rw [pktWire, ← heq, hmac]
      rw [this]; exact hpre
    · exact Or.inl ⟨hmac, hin⟩

/-- **A modified MAC is always reported — every legal packet shape, header-only packets
included.** After any honest packets `pre`, the honest ciphertext of ANY packet that fits
(`d.length + p ≤ maxPayloadLength`; in particular the 21-byte header-only packet `d = []`, `p = 0`,
whose MAC covers the header alone) arriving under a tag other than the honest one — in ANY
segmentation, whatever follows — makes the reader deliver exactly the payload of `pre` and then
fail with `ErrInvalidPacket`. (Unconditional: no forgery alternative, the tag of a fixed message
is a function.) -/
theorem modified_tag_reported (P : Prims) (k : DirKeys) (hm : MacLen P) (hx : StreamOK P k) (o : Nat)
    (pre : List (Nat × Bytes × Nat)) (hok : ∀ x ∈ pre, PktOK x.1 x.2.1 x.2.2)
    (f : Nat) (d : Bytes) (p : Nat) (hsz : d.length + p ≤ maxPayloadLength) (hfl : f < 256)
    (tag : Bytes) (htag : tag.length = macLength)
    (hbad : tag ≠ mac128 P k.macKey (pktCipher P k (offAfter o pre) f d p)) (rest : Bytes)
    (cs : List Bytes)
    (hcs : cs.flatten = encodeAll P k o pre ++ (tag ++ pktCipher P k (offAfter o pre) f d p ++ rest)) :
    (feedChunks P k (Rx.init o) [] cs).2.1 = pre.map (fun x => dispatch x.1 x.2.1) ++ [.err] ∧
    (feedChunks P k (Rx.init o) [] cs).1.failed = true ∧
    delivered (feedChunks P k (Rx.init o) [] cs).2.1 = payloadBytes pre := by
  obtain ⟨r1, q1⟩ := feedChunks_whole P k cs (Rx.init o) [] (Or.inr (idle_quiescent P k o []))
  obtain ⟨mb', r2⟩ := roundtrip P k hm hx pre o []
    (tag ++ pktCipher P k (offAfter o pre) f d p ++ rest) hok
  obtain ⟨s', hf', r3⟩ := bad_tag_rejected P k hx tag htag hbad mb' hsz hfl rest
  rw [List.nil_append, hcs] at r1
  rw [← Rx.init_eq] at r2
  obtain ⟨ho, hs, _⟩ := Machine.Runs.det (rxMachine P k) r1 q1
    (Machine.Runs.trans (rxMachine P k) r2 r3) (failed_quiescent P k hf' rest)
  refine ⟨ho, by rw [hs]; exact hf', ?_⟩
  rw [ho, delivered_append, delivered_honest pre hok]
  simp [delivered]

/-- non-vacuity for the header-only shape: it fits, and flipping a bit of its tag gives another tag -/
example : ([] : Bytes).length + 0 ≤ maxPayloadLength ∧ pktPayload < 256 ∧
    (mac128 toyPrims [] (pktCipher toyPrims ⟨[], [], []⟩ 0 pktPayload [] 0)).set 0 0xff
      ≠ mac128 toyPrims [] (pktCipher toyPrims ⟨[], [], []⟩ 0 pktPayload [] 0) := by
  decide +kernel

/-- a modification that leaves the 16 tag bytes alone (any change of the encrypted header or
    body, in particular any single flipped bit there) is either reported or exhibits an explicit
    **collision** of HMAC-SHA256-128: two different messages with the same tag -/
theorem tamper_same_tag_collision (P : Prims) (k : DirKeys) (oj : Nat) (f : Nat) (d : Bytes) (p : Nat) (wj : Bytes)
    (hne : ¬ pktWire P k oj f d p <+: wj)
    (htag : firstTag wj = mac128 P k.macKey (pktCipher P k oj f d p))
    (hpre : (firstTag wj ++ firstMsg P k oj wj) <+: wj)
    (hmac : mac128 P k.macKey (firstMsg P k oj wj) = firstTag wj) :
    mac128 P k.macKey (firstMsg P k oj wj) = mac128 P k.macKey (pktCipher P k oj f d p) ∧
    firstMsg P k oj wj ≠ pktCipher P k oj f d p := by
  refine ⟨hmac.trans htag, fun heq => hne ?_⟩
  have : pktWire P k oj f d p = firstTag wj ++ firstMsg P k oj wj := by rw [pktWire, heq, htag]
  rw [this]; exact hpre

/-- a modified tag alone is always reported: the honest ciphertext under another tag never verifies -/
theorem tamper_tag_rejected (P : Prims) (k : DirKeys) (oj : Nat) (f : Nat) (d : Bytes) (p : Nat) (tag' : Bytes)
    (h : tag' ≠ mac128 P k.macKey (pktCipher P k oj f d p)) :
    mac128 P k.macKey (pktCipher P k oj f d p) ≠ tag' := fun e => h e.symm

/-- non-vacuity of `tamper_detected`: one honest packet, then the next one with a byte changed -/
example : ¬ pktWire toyPrims ⟨[], [], []⟩ (offAfter 0 [(pktPayload, [1, 2, 3], 0)]) pktPayload [4] 0
    <+: (pktWire toyPrims ⟨[], [], []⟩ (offAfter 0 [(pktPayload, [1, 2, 3], 0)]) pktPayload [4] 0).set 18 0 := by
  decide +kernel

/-- **No panic in the packet reader.** For EVERY input in every segmentation, whenever the reader
holds a decoded header its announced lengths satisfy `payloadLen ≤ totalLen ≤ maxPayloadLength`:
the guards that keep `make([]byte, totalLen)` and `data[:payloadLen]` in range. (The other slices
of `readPackets` are `bytes.Buffer.Read`s of exactly the lengths tested just before; the model
has no other partial operation.) -/
theorem no_panic_packets (P : Prims) (k : DirKeys) (o : Nat) (surplus : Bytes) (cs : List Bytes) :
    RxOk (feedChunks P k (Rx.init o) surplus cs).1 := by
  have hinit : RxOk (Rx.init o) := by intro h; simp [Rx.init] at h
  cases cs with
  | nil => simpa [feedChunks] using hinit
  | cons c cs =>
    obtain ⟨r, _⟩ := feedChunks_whole P k (c :: cs) (Rx.init o) surplus (Or.inl (by simp))
    exact runs_ok P k r hinit

/-- **Bounded receive buffer, data phase.** After every `readPackets` call that did not fail, less
than `maxPayloadLength` bytes stay in `receiveBuffer` — for EVERY input and segmentation, whatever
surplus the handshake left. The next call adds at most one `maxSegmentLength` read. -/
theorem buffer_bounded_packets (P : Prims) (k : DirKeys) (o : Nat) (surplus c : Bytes) (cs : List Bytes)
    (hf : (feedChunks P k (Rx.init o) surplus (c :: cs)).1.failed = false) :
    (feedChunks P k (Rx.init o) surplus (c :: cs)).2.2.length < maxPayloadLength ∧
    ∀ next : Bytes, next.length ≤ maxSegmentLength →
      ((feedChunks P k (Rx.init o) surplus (c :: cs)).2.2 ++ next).length < maxPayloadLength + maxSegmentLength := by
  obtain ⟨r, q⟩ := feedChunks_whole P k (c :: cs) (Rx.init o) surplus (Or.inl (by simp))
  have hinit : RxOk (Rx.init o) := by intro h; simp [Rx.init] at h
  have hb := quiescent_residue P k q (runs_ok P k r hinit) hf
  refine ⟨hb, fun next hn => ?_⟩
  rw [List.length_append]; omega

/-- **Bounded receive buffer, handshake.** The parser answers "not yet" only below
`maxHandshakeLength` bytes, for EVERY input; as every read adds at most `maxHandshakeLength`
bytes the handshake buffer stays below `2 * maxHandshakeLength`. -/
theorem buffer_bounded_response (P : Prims) (hm : MacLen P) (hs : DhHs) (resp : Bytes)
    (hmark : hs.serverPub.isSome → hs.serverMark.length = macLength)
    (h : (hs.parse P true resp).2 = .notYet) :
    resp.length < maxHandshakeLength ∧
    ∀ next : Bytes, next.length ≤ maxHandshakeLength → (resp ++ next).length < 2 * maxHandshakeLength := by
  have hb : resp.length < maxHandshakeLength := by
    have h1 := c_min
    have h2 := c_min_le_max
    unfold DhHs.parse at h
    by_cases hlen : resp.length < minHandshakeLength
    · omega
    · simp only [hlen, ↓reduceIte] at h
      cases hc : hs.cache P resp with
      | none => simp [hc] at h
      | some r =>
        obtain ⟨hs1, y⟩ := r
        simp only [hc] at h
        have hmark1 : hs1.serverMark.length = macLength := by
          unfold DhHs.cache at hc
          split at hc
          · rename_i y' hy
            simp only [Option.some.injEq, Prod.mk.injEq] at hc
            rw [← hc.1]; exact hmark (by simp [hy])
          · split at hc
            · cases hc
            · simp only [Option.some.injEq, Prod.mk.injEq] at hc
              rw [← hc.1]; exact hm _ _
        cases hp : hs1.parseTail P true y resp with
        | mk hs' res =>
          rw [hp] at h
          simp only at h
          subst h
          exact parseTail_notYet_bound hmark1 hp
  refine ⟨hb, fun next hn => ?_⟩
  rw [List.length_append]; omega

/-! ## wrong secret, tampered response -/

/-- **What completion certifies.** For EVERY received stream in every segmentation: if the
client's UniformDH handshake completes, the `n` bytes it consumed end in `macLength` bytes that
are a valid HMAC-SHA256-128 tag under the client's `k_B` for everything before them followed by
the client's own epoch-hour string. (`Verified` spells this out on the received bytes: the
witness is explicit.) -/
theorem completion_verifies (P : Prims) (kB priv pubX cpad : Bytes) (hour : Int) (cs : List Bytes)
    (seed rest : Bytes) (unread : List Bytes)
    (h : dhLoop P true ((DhHs.new kB priv pubX).generate P cpad hour).1 [] cs = .done seed rest unread) :
    Verified P kB (epochHourBytes hour) cs.flatten
      (cs.flatten.length - (rest.length + unread.flatten.length)) := by
  have := dhLoop_verified (P := P) (kB := kB) (E := epochHourBytes hour) cs [] _ seed rest unread
    ⟨rfl, rfl, Or.inl rfl⟩ h
  simpa using this

/-- **A wrong shared secret or a tampered response never completes — reduction form.**
`bodies` are the flight bodies `id | P | M` that holders of `k_B` MACed with the epoch hour `E` in
this exchange (always the client's own `X | P_C | M_C`; the genuine `Y | P_S | M_S` if the server
holds `k_B`; nothing else for a server with another secret), `marks` the key strings they MACed
alone (`X`, `Y`). If the client completes on a stream `W` having consumed `n` bytes, then either
* the consumed bytes are, bit for bit, one of those honest flights (the untampered genuine
  response — or the client's own flight sent back to it, which the protocol cannot tell from a
  response because both directions use the same MAC key and format), or
* the explicit pair `msg = W[:n-macLength] ++ E`, `tag = W[n-macLength:n]` is a **forgery** under
  `k_B`: it verifies although no holder of `k_B` MACed `msg`. -/
theorem wrong_secret_never_completes (P : Prims) (kB priv pubX cpad : Bytes) (hour : Int)
    (cs : List Bytes) (seed rest : Bytes) (unread : List Bytes)
    (h : dhLoop P true ((DhHs.new kB priv pubX).generate P cpad hour).1 [] cs = .done seed rest unread)
    (bodies marks : List Bytes) (hmarks : ∀ m ∈ marks, m.length = dhSize) :
    (∃ b ∈ bodies, cs.flatten.take (cs.flatten.length - (rest.length + unread.flatten.length))
        = b ++ mac128 P kB (b ++ epochHourBytes hour))
    ∨ Forgery P kB (bodies.map (· ++ epochHourBytes hour) ++ marks)
        (cs.flatten.take (cs.flatten.length - (rest.length + unread.flatten.length) - macLength) ++ epochHourBytes hour)
        ((cs.flatten.take (cs.flatten.length - (rest.length + unread.flatten.length))).drop
          (cs.flatten.length - (rest.length + unread.flatten.length) - macLength)) := by
  obtain ⟨hv1, hv2, hv3⟩ := completion_verifies P kB priv pubX cpad hour cs seed rest unread h
  generalize cs.flatten.length - (rest.length + unread.flatten.length) = n at hv1 hv2 hv3 ⊢
  generalize cs.flatten = W at hv1 hv2 hv3 ⊢
  have h1 := c_min
  have h3 := c_mac_dh
  by_cases hb : ∃ b ∈ bodies, W.take (n - macLength) = b
  · obtain ⟨b, hbm, hbe⟩ := hb
    refine Or.inl ⟨b, hbm, ?_⟩
    rw [← hbe, hv3]
    have : (W.take n).take (n - macLength) = W.take (n - macLength) := by
      rw [List.take_take]; congr 1; omega
    rw [← this, List.take_append_drop]
  · refine Or.inr ⟨hv3, ?_⟩
    intro hmem
    rcases List.mem_append.mp hmem with hmem | hmem
    · obtain ⟨b, hbm, hbe⟩ := List.mem_map.mp hmem
      exact hb ⟨b, hbm, (List.append_cancel_right hbe).symm⟩
    · have hl := hmarks _ hmem
      have hlen : (W.take (n - macLength)).length = n - macLength := by
        rw [List.length_take]; omega
      rw [List.length_append, hlen] at hl
      have h0 := c_mac_pos
      omega

/-- non-vacuity: on the conforming toy stream of `response_any_split`'s example the client
    completes (whole stream in one segment), so the hypothesis of the two theorems above is met -/
example : dhLoop toyPrims true
    ((DhHs.new (List.replicate 20 1) [9] (List.replicate 192 3)).generate toyPrims [] 480000).1 []
    [serverResponse toyPrims (List.replicate 20 1) (List.replicate 192 0) [0, 0, 0] 480000 ++ [1, 2, 3, 4, 5]]
      = .done (List.replicate 32 0) [1, 2, 3, 4, 5] [] := by
  decide +kernel

/-! ## padding arithmetic of `padBurst` -/

/-- wire bytes a list of padding packets adds to the burst -/
def padWire (ps : List Int) : Int := (ps.map (· + (pktOverhead : Int))).sum

/-- the `padLen` of `padBurst`: at least one packet overhead, less than one segment more, and it
    brings the burst to the sampled length modulo the segment size -/
theorem padLen_spec (b s : Nat) (hs : s ≤ maxSegmentLength) :
    (pktOverhead : Int) ≤ padBurstPadLen b s ∧ padBurstPadLen b s < (pktOverhead : Int) + maxSegmentLength ∧
    ((b : Int) + padBurstPadLen b s) % (maxSegmentLength : Int) = (s : Int) % (maxSegmentLength : Int) := by
  simp only [padBurstPadLen, maxSegmentLength, pktOverhead] at *
  by_cases h1 : (s : Int) ≥ ((b % 1448 : Nat) : Int)
  · simp only [h1, ↓reduceIte]
    by_cases h2 : (s : Int) - ((b % 1448 : Nat) : Int) < ((21 : Nat) : Int)
    · simp only [h2, ↓reduceIte]; omega
    · simp only [h2, ↓reduceIte]; omega
  · simp only [h1, ↓reduceIte]
    by_cases h2 : ((1448 : Nat) : Int) - ((b % 1448 : Nat) : Int) + (s : Int) < ((21 : Nat) : Int)
    · simp only [h2, ↓reduceIte]; omega
    · simp only [h2, ↓reduceIte]; omega

/-- **padBurst arithmetic** for every burst length and every sampled length up to a segment:
every padding packet gets a padding length in `[0, maxPayloadLength]` (so `makePayloadPacket`
neither panics nor slices `zeroPadBytes` out of range); one packet is appended and the burst
then ends exactly on the sampled length modulo the segment size — or two packets are appended
(when more than a segment of padding is needed) and the burst ends `pktOverhead` bytes short
of it, because the code subtracts the header of the second packet twice
(`padLen-(700+2*pktOverhead)`).  That shortfall concerns traffic shaping only; no byte of
payload depends on it. -/
theorem padburst (burstLen sampleLen : Nat) (hs : sampleLen ≤ maxSegmentLength) :
    (∀ p ∈ padBurstLens burstLen sampleLen, 0 ≤ p ∧ p ≤ (maxPayloadLength : Int)) ∧
    ((padBurstLens burstLen sampleLen).length = 1 ∧
        ((burstLen : Int) + padWire (padBurstLens burstLen sampleLen)) % (maxSegmentLength : Int)
          = (sampleLen : Int) % (maxSegmentLength : Int)
     ∨ (padBurstLens burstLen sampleLen).length = 2 ∧
        ((burstLen : Int) + padWire (padBurstLens burstLen sampleLen) + (pktOverhead : Int)) % (maxSegmentLength : Int)
          = (sampleLen : Int) % (maxSegmentLength : Int)) := by
  obtain ⟨h1, h2, h3⟩ := padLen_spec burstLen sampleLen hs
  unfold padBurstLens
  generalize padBurstPadLen burstLen sampleLen = p at h1 h2 h3
  simp only [maxSegmentLength, pktOverhead, maxPayloadLength, padWire] at *
  have h0 : ¬ p = 0 := by omega
  by_cases hbig : p > ((1448 : Nat) : Int)
  · simp only [h0, hbig, ↓reduceIte]
    refine ⟨?_, Or.inr ⟨rfl, ?_⟩⟩
    · intro q hq
      simp only [List.mem_cons, List.not_mem_nil, or_false] at hq
      rcases hq with rfl | rfl <;> omega
    · simp only [List.map_cons, List.map_nil, List.sum_cons, List.sum_nil]
      omega
  · simp only [h0, hbig, ↓reduceIte]
    refine ⟨?_, Or.inl ⟨rfl, ?_⟩⟩
    · intro q hq
      simp only [List.mem_cons, List.not_mem_nil, or_false] at hq
      subst hq; omega
    · simp only [List.map_cons, List.map_nil, List.sum_cons, List.sum_nil]
      omega

/-- **Exact stream, client → server.** `Write(b)` (any `b`, any sampled length up to a segment, any
keystream position) never panics and writes bytes that a receiver holding the same keys decodes —
in ANY segmentation — to exactly `b`: the padding packets deliver nothing, nothing is left over,
no error. -/
theorem write_exact (P : Prims) (k : DirKeys) (hm : MacLen P) (hx : StreamOK P k) (o : Nat) (b : Bytes)
    (sample : Nat) (hs : sample ≤ maxSegmentLength) :
    ∃ o' wire, connWrite P ⟨k, o⟩ b sample = some (⟨k, o'⟩, wire) ∧
      ∀ cs : List Bytes, cs.flatten = wire →
        delivered (feedChunks P k (Rx.init o) [] cs).2.1 = b ∧
        (feedChunks P k (Rx.init o) [] cs).2.2 = [] ∧
        (feedChunks P k (Rx.init o) [] cs).1.failed = false := by
  obtain ⟨hw, hok, hpb⟩ := connWrite_eq P k o b sample (fun bl => (padburst bl sample hs).1)
  refine ⟨_, _, hw, fun cs hcs => ?_⟩
  obtain ⟨_, hd, hr, hf⟩ := stream_exact P k hm hx o _ hok cs hcs
  exact ⟨hd.trans hpb, hr, hf⟩

/-- both branches occur: one packet (burst 100, sample 50), two packets (burst 1440, sample 1447) -/
example : padBurstLens 100 50 = [1377] ∧ padBurstLens 1440 1447 = [679, 713] := by decide

/-! ## session tickets -/

/-- **A ticket is used for at most one handshake.** For EVERY history of connects (to any
bridge, at any time), ticket issues and restarts, starting from an empty store, in which the
server never issues the same 144-byte blob twice, no blob is presented in two handshakes. -/
theorem ticket_once (h : List HOp) (hd : (issuedRaws h).Nodup) : (runHist [] [] h).2.Nodup :=
  runHist_nodup h [] [] ⟨List.nodup_nil, List.nodup_nil, fun _ hr => by simp at hr,
    fun _ hr => by simp [raws] at hr, fun _ hr => by simp at hr⟩ hd

/-- non-vacuity: issue, connect (presents the ticket), connect again (UniformDH), restart, connect -/
example : (runHist [] [] [.issue "a" (List.replicate 144 7) 1000, .connect "a" 2000, .connect "a" 3000,
    .restart 4000, .connect "a" 5000]).2 = [List.replicate 144 7] := by decide +kernel

/-- **At most one handshake per ticket, even when checkpoints fail.** The store is the in-memory
map plus the ticket file; every `serialize` (at the redeeming connect, at the storing of a new
ticket) may succeed or fail, a failure leaving the file as it was; a restart reloads the map from
the file. For EVERY history of connects, issues (each with its own write outcome) and restarts in
which the server never issues the same blob twice, no blob is presented in two handshakes. The
point of the code that carries it: `getTicket` *returns* the checkpoint error, so a ticket whose
removal did not reach the disk is not presented (`checkpoint_failure_does_not_present`). -/
theorem ticket_once_with_write_faults (h : List HOpF) (hd : (issuedRawsF h).Nodup) :
    (runHistF ⟨[], none⟩ [] h).2.Nodup :=
  runHistF_nodup h ⟨[], none⟩ [] ⟨Good.nil _ _, Good.nil _ _, List.nodup_nil, fun _ hr => by simp at hr⟩ hd

/-- **A failed checkpoint presents nothing.** Whenever a ticket is held for the bridge and the
checkpoint after its removal fails, the connection attempt ends with the error (no ticket flight,
no UniformDH flight), the ticket is gone from the map and the file is untouched. -/
theorem checkpoint_failure_does_not_present (d : Disk) (addr : String) (now : Int) (t : Ticket)
    (h : d.mem.lookup addr = some t) :
    (d.connect addr now false).2 = .error ∧ (d.connect addr now false).1.mem = d.mem.erase addr ∧
    (d.connect addr now false).1.file = d.file := by
  simp [Disk.connect, h, Disk.checkpoint]

/-- the scenario: ticket stored, checkpoint fails at the redeeming connect (nothing presented), restart
    (the ticket is back from the file), connect (presented, once), restart, connect (UniformDH) -/
example : (runHistF ⟨[], none⟩ [] [.issue "a" (List.replicate 144 7) 1000 true, .connect "a" 2000 false,
    .restart 3000, .connect "a" 4000 true, .restart 5000, .connect "a" 6000 true]).2 = [List.replicate 144 7] := by
  decide +kernel

/-- **An expired ticket falls back to UniformDH** (and is removed). -/
theorem expired_falls_back (s : Store) (addr : String) (now : Int) (t : Ticket)
    (h : s.lookup addr = some t) (hexp : t.issuedAt + (ticketLifetime : Int) ≤ now) :
    (s.connect addr now).2 = .uniformDH ∧ (s.connect addr now).1.lookup addr = none := by
  have hv : t.isValid now = false := by simp [Ticket.isValid]; omega
  rw [connect_expired now h hv]
  refine ⟨rfl, ?_⟩
  simp only [Store.lookup, Store.erase, Option.map_eq_none_iff, List.find?_eq_none, List.mem_filter]
  intro e ⟨_, he⟩
  simpa using he

/-- **No ticket, UniformDH** (the store is left alone). -/
theorem absent_falls_back (s : Store) (addr : String) (now : Int) (h : s.lookup addr = none) :
    s.connect addr now = (s, .uniformDH) := connect_absent now h

/-- a valid ticket is presented and is gone from the store afterwards -/
theorem valid_ticket_presented_and_removed (s : Store) (addr : String) (now : Int) (t : Ticket)
    (h : s.lookup addr = some t) (hv : now < t.issuedAt + (ticketLifetime : Int)) :
    (s.connect addr now).2 = .ticket t ∧ (s.connect addr now).1.lookup addr = none := by
  have hv' : t.isValid now = true := by simp [Ticket.isValid]; omega
  rw [connect_valid now h hv']
  refine ⟨rfl, ?_⟩
  simp only [Store.lookup, Store.erase, Option.map_eq_none_iff, List.find?_eq_none, List.mem_filter]
  intro e ⟨_, he⟩
  simpa using he

example : ([("a", (⟨[1], [2], 0⟩ : Ticket))] : Store).lookup "a" = some ⟨[1], [2], 0⟩ ∧
    (0 : Int) + (ticketLifetime : Int) ≤ 604800 := by decide

/-- `getTicket` and `storeTicket` run under the store's mutex from their first access to the map
    to their return (go/ast fact regenerated from the source on every run): concurrent
    connections see the one-step `Store.getTicket` / `Store.storeTicket` of the model -/
theorem store_ops_run_under_mutex :
    O4.Facts.Scramblesuit.ssTicketStore_getTicket_locked = true ∧
    O4.Facts.Scramblesuit.ssTicketStore_storeTicket_locked = true ∧
    O4.Facts.Scramblesuit.ssTicketStore_getTicket_prelock = [] ∧
    O4.Facts.Scramblesuit.ssTicketStore_storeTicket_prelock = [] := by decide

/-! ## `Read` and errors of the underlying conn -/


/-- **The error surfaces only when nothing decoded is left** (repaired `Read`), for every state,
    every script of underlying reads (data and errors in one read included) and every buffer size. -/
theorem read_error_only_when_drained (P : Prims) (k : DirKeys) (n : Nat) (s : ConnRd) (script : List NetRead)
    (s' : ConnRd) (d : Bytes) (e : RdErr) (rest : List NetRead)
    (h : ConnRd.read P k n s script = some (s', d, some e, rest)) : d = [] ∧ s'.dec = [] := by
  induction script generalizing s with
  | nil =>
    unfold ConnRd.read at h
    split at h
    · cases h
    · rename_i hd
      have hd' : s.dec = [] := Decidable.of_not_not hd
      split at h
      · simp only [Option.some.injEq, Prod.mk.injEq] at h
        obtain ⟨rfl, rfl, _, _⟩ := h
        exact ⟨rfl, hd'⟩
      · cases h
  | cons r rs ih =>
    unfold ConnRd.read at h
    split at h
    · cases h
    · rename_i hd
      have hd' : s.dec = [] := Decidable.of_not_not hd
      split at h
      · simp only [Option.some.injEq, Prod.mk.injEq] at h
        obtain ⟨rfl, rfl, _, _⟩ := h
        exact ⟨rfl, hd'⟩
      · split at h
        · cases h
        · rename_i r' rest' heq
          cases heq
          split at h
          · split at h
            · cases h
            · rename_i hd2
              simp only [Option.some.injEq, Prod.mk.injEq] at h
              obtain ⟨rfl, rfl, _, _⟩ := h
              exact ⟨rfl, Decidable.of_not_not hd2⟩
          · exact ih _ h

/-- **Reported once, then forgotten**: the call that reports the error leaves no pending error, so
    the next `Read` goes to the underlying conn again — a temporary error (a read timeout) is
    recoverable, as before the repair. -/
theorem read_error_reported_once (P : Prims) (k : DirKeys) (n : Nat) (s : ConnRd) (script : List NetRead)
    (s' : ConnRd) (d : Bytes) (e : RdErr) (rest : List NetRead)
    (h : ConnRd.read P k n s script = some (s', d, some e, rest)) : s'.err = none := by
  induction script generalizing s with
  | nil =>
    unfold ConnRd.read at h
    split at h
    · cases h
    · rename_i hd
      have hd' : s.dec = [] := Decidable.of_not_not hd
      split at h
      · simp only [Option.some.injEq, Prod.mk.injEq] at h
        obtain ⟨rfl, rfl, _, _⟩ := h
        rfl
      · cases h
  | cons r rs ih =>
    unfold ConnRd.read at h
    split at h
    · cases h
    · rename_i hd
      have hd' : s.dec = [] := Decidable.of_not_not hd
      split at h
      · simp only [Option.some.injEq, Prod.mk.injEq] at h
        obtain ⟨rfl, rfl, _, _⟩ := h
        rfl
      · split at h
        · cases h
        · rename_i r' rest' heq
          cases heq
          split at h
          · split at h
            · cases h
            · rename_i hd2
              simp only [Option.some.injEq, Prod.mk.injEq] at h
              obtain ⟨rfl, rfl, _, _⟩ := h
              rfl
          · exact ih _ h

/-- **A read error keeps the buffer**: the call that receives data TOGETHER with an error hands out
    the decoded bytes without an error and remembers the error. -/
theorem read_error_keeps_buffer (P : Prims) (k : DirKeys) (n : Nat) (s : ConnRd) (r : NetRead) (rest : List NetRead)
    (s1 : ConnRd) (e : RdErr) (hd : s.dec = []) (he : s.err = none)
    (hr : s.readPackets P k r = (s1, some e)) (hne : s1.dec ≠ []) :
    ConnRd.read P k n s (r :: rest)
      = some ({ s1 with dec := s1.dec.drop n, err := some e }, s1.dec.take n, none, rest) := by
  unfold ConnRd.read
  simp [hd, he, hr, hne]

/-- **Nothing lost**: once the stream has ended with error `e`, a reader with ANY buffer size `n ≥ 1`
    that stops at the first error gets exactly every decoded byte still buffered, then `e`. -/
theorem read_drains_before_error (P : Prims) (k : DirKeys) (n : Nat) (hn : 0 < n) (e : RdErr) : ∀ (fuel : Nat) (s : ConnRd),
    s.err = some e → s.dec.length < fuel →
    readAll (ConnRd.read P k n) fuel s [] = (s.dec, some e) := by
  intro fuel
  induction fuel with
  | zero => intro s _ h; omega
  | succ f ih =>
    intro s he hl
    by_cases hd : s.dec = []
    · simp [readAll, ConnRd.read, hd, he]
    · have hpos : 0 < s.dec.length := List.length_pos_iff.mpr hd
      have := ih { s with dec := s.dec.drop n } he (by simp only [List.length_drop]; omega)
      simp only [readAll, ConnRd.read, hd, ne_eq, not_false_eq_true, ↓reduceIte, this, List.take_append_drop]

/-- the code BEFORE the repair: when the decoded payload of the call that also got the error is
    larger than the caller's buffer, the error comes with the first `n` bytes and a reader that
    stops there has lost the rest (replay corpus/C15/read-error-with-decoded-bytes-buffered-*.json) -/
theorem old_read_drops_bytes (P : Prims) (k : DirKeys) (n : Nat) (s : ConnRd) (r : NetRead) (rest : List NetRead)
    (s1 : ConnRd) (e : RdErr) (hd : s.dec = []) (hr : s.readPackets P k r = (s1, some e)) (hlt : n < s1.dec.length) :
    ∃ s2, ConnRd.readOld P k n s (r :: rest) = some (s2, s1.dec.take n, some e, rest) ∧ s2.dec ≠ [] ∧
      (readAll (ConnRd.readOld P k n) (s1.dec.length + 2) s (r :: rest)).1.length < s1.dec.length := by
  refine ⟨{ s1 with dec := s1.dec.drop n }, by simp [ConnRd.readOld, hd, hr], ?_, ?_⟩
  · intro h; have := congrArg List.length h; simp at this; omega
  · simp [readAll, ConnRd.readOld, hd, hr, List.length_take]; omega


/-! ## the handshake timeout, the padding sampler under concurrency -/

theorem armedAfter_append_clear (t : List ConnEv) (a : Bool) : armedAfter (t ++ [.clear]) a = false := by
  induction t generalizing a with
  | nil => rfl
  | cons e r ih => cases e <;> simp [armedAfter, ih]

/-- **No handshake deadline survives a successful Dial — ticket handshake and UniformDH alike.**
The timeout is armed before the first I/O and the last deadline operation of a successful
`newScrambleSuitClientConn` is the clear, however many reads the response took. -/
theorem deadline_cleared_after_dial (ticket : Bool) (reads : Nat) :
    (dialTrace ticket reads).head? = some .arm ∧ armedAfter (dialTrace ticket reads) false = false := by
  refine ⟨rfl, ?_⟩
  unfold dialTrace
  exact armedAfter_append_clear _ _

example : dialTrace true 0 = [.arm, .write, .clear] ∧ dialTrace false 2 = [.arm, .write, .read, .read, .clear] := by
  decide

/-- **The padding sampler is reseeded by the reader while the writer samples.** A `pktPrngSeed`
packet makes `readPackets` call `lenDist.Reset(seed)` while another goroutine may be inside
`Write` → `lenDist.Sample()`. `connWrite`/`write_exact` treat the sampled length as one value in
`[0, maxSegmentLength]`; that is only what the code does if `Sample` and `Reset` hold the
distribution's mutex for everything that touches its tables (go/ast facts regenerated from
common/probdist on every run: both are bracketed by `Lock(); defer Unlock()`, neither touches a
field before taking the lock, and every field `Sample` reads is one `Reset` writes under it).
Goroutine scheduling itself is outside the theorem; the harness's concurrent reseed/Write family
samples it. -/
theorem padding_sampler_reseed_under_mutex :
    O4.Facts.Probdist.WeightedDist_Sample_locked = true ∧
    O4.Facts.Probdist.WeightedDist_Sample_prelock = [] ∧
    O4.Facts.Probdist.WeightedDist_Reset_locked = true ∧
    O4.Facts.Probdist.WeightedDist_Reset_prelock = [] ∧
    O4.Facts.Probdist.WeightedDist_Sample_fields ⊆ O4.Facts.Probdist.WeightedDist_Reset_fields := by
  decide


/-- **structural fact, regenerated from the Go source on every run (go/ast)**: every package-level
    variable (file-scope `var`) of the packages this property's mechanisms live in
    (transports/scramblesuit, common/probdist, common/uniformdh) is one of the names below — error values, fixed byte strings,
    flags and function hooks that the code only reads after initialisation.  The models treat all
    other state as owned by one connection / one object; a NEW package-level variable (a cache, a
    pool, a scratch buffer, a pre-keyed hash shared "to save allocations") is how such state comes
    to be shared between connections and goroutines, which compiles, passes the tests and typically
    needs true parallelism or a multi-connection history to misbehave.  Adding one breaks this
    theorem; the concurrent / multi-connection families of the harness then search for the failing
    schedule. -/
theorem no_new_package_level_state :
    O4.Facts.Scramblesuit.pkg_vars ⊆ ["ErrInvalidHandshake", "ErrInvalidPacket", "ErrNotSupported", "errInvalidTicket", "errMarkNotFoundYet", "zeroPadBytes"] ∧
    O4.Facts.Probdist.pkg_vars ⊆ [] ∧
    O4.Facts.Uniformdh.pkg_vars ⊆ ["gen", "modpGroup"] := by
  decide

end C15
