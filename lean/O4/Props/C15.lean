import O4.Model.ScrambleSuit
/-! # C15 — ScrambleSuit client (work in progress) -/
namespace C15
open O4 O4.SS O4.Consts.Scramblesuit

theorem consts_fit : dhSize + dhMaxPadLength + 2 * macLength ≤ maxHandshakeLength := by decide

end C15
