import O4.Lemmas.Obfs4Chunk
import O4.Lemmas.Obfs4Tx
import O4.Lemmas.Obfs4EndToEnd
import O4.Generated.Facts.Obfs4
import O4.Generated.Facts.Framing
import O4.Generated.Facts.Drbg
/-!
# C01 — obfs4 delivers the exact byte stream under any segmentation; every byte written becomes
readable without further traffic, including data arriving in the same segment as the handshake

Property theorems only (receive side; helper lemmas: `O4/Lemmas/Obfs4Chunk.lean`,
`O4/Lemmas/Framing.lean`, `O4/Lemmas/Incremental.lean`; model: `O4/Model/Obfs4Conn.lean`,
`O4/Model/Obfs4Session.lean`, `O4/Model/Framing.lean`).  The link crypto is abstract: the
theorems about arbitrary byte streams hold for every `Crypto`, those about the honest stream
for every `Crypto` satisfying `CryptoOK` (seal/open round trip, 16 bytes of overhead).
-/
set_option autoImplicit false

namespace C01
open O4 O4.Obfs4 O4.Framing

/-! concrete instance for the non-vacuity examples: two packets, `"hi"` and `"!"` + 2 bytes of
    padding, under the toy link crypto; 47 wire bytes -/
private def pktA : Bytes := [0, 0, 2, 104, 105]
private def pktB : Bytes := [0, 0, 1, 33, 0, 0]
private def bytewise (b : Bytes) : List Bytes := b.map (fun x => [x])

/-! ## 1. chunk invariance of the receive path, arbitrary bytes -/

/-- **Any two segmentations of the same byte stream** (honest or not), fed from a settled state,
    end with the same error verdict, decoder state, decoded bytes and adopted seeds; without an
    error also with the same receive buffer.  (After an error the buffers differ only in how
    much of the stream had been buffered when the error struck.)  `Settled` is necessary: from a
    non-settled state the chunkings `[]` and `[[]]` differ — that is defect F1. -/
theorem chunk_invariance_feed (c : Crypto) (srv : Bool) (rx0 : Rx) (hs : Settled c srv rx0)
    (cs cs' : List Bytes) (h : cs.flatten = cs'.flatten) :
    let r := feedAll c srv rx0 cs
    let r' := feedAll c srv rx0 cs'
    r.2 = r'.2 ∧ r.1.dec = r'.1.dec ∧ r.1.decoded = r'.1.decoded ∧ r.1.seeds = r'.1.seeds ∧
      (r.2 = none → r.1.rxBuf = r'.1.rxBuf) :=
  feed_chunk_invariant c srv rx0 hs cs cs' h _ _ _ _ rfl rfl

/-- non-vacuity: a stream whose second frame is corrupted, whole vs. byte-wise: both report the
    tag mismatch after delivering the first payload -/
example :
    let w := wire toyCrypto [pktA] ++ [206, 102, 9, 9, 9, 9, 9, 9, 9, 9, 9, 9, 9, 9, 9, 9, 9, 9, 9, 9, 9, 9, 9, 9]
    Settled toyCrypto true Rx.init ∧ [w].flatten = (bytewise w).flatten ∧
    (feedAll toyCrypto true Rx.init (bytewise w)).2 = some (.frame .tagMismatch) ∧
    (feedAll toyCrypto true Rx.init (bytewise w)).1.decoded = [104, 105] ∧
    (feedAll toyCrypto true Rx.init [w]).1.decoded = [104, 105] := by decide +kernel

/-- `Settled` cannot be dropped: with a complete frame sitting undecoded in the buffer, "no
    network read" and "one empty network read" differ -/
example :
    let rx0 : Rx := { Rx.init with rxBuf := wire toyCrypto [pktA] }
    ([] : List Bytes).flatten = [([] : Bytes)].flatten ∧ ¬ Settled toyCrypto false rx0 ∧
    (feedAll toyCrypto false rx0 []).1.decoded = [] ∧
    (feedAll toyCrypto false rx0 [[]]).1.decoded = [104, 105] := by decide +kernel

/-! ## 2. the honest stream, any segmentation -/

/-- **Every segmentation of the honest wire stream decodes to exactly the packets' payload**,
    without error, leaving nothing in the receive buffer. -/
theorem honest_feed (c : Crypto) (hc : CryptoOK c) (srv : Bool) (pkts : List Bytes)
    (hp : ∀ p ∈ pkts, p.length ≤ Consts.Framing.maximumFramePayloadLength)
    (hwf : ∀ p ∈ pkts, ∀ e, parsePacket srv p ≠ .bad e)
    (hn : pkts.length < ctrLimit - 1) (cs : List Bytes) (hcs : cs.flatten = wire c pkts) :
    ∃ rx, feedAll c srv Rx.init cs = (rx, none) ∧ rx.rxBuf = [] ∧ rx.dec = ⟨pkts.length, none⟩ ∧
      rx.decoded = pkts.flatMap (payloadOf srv) := by
  obtain ⟨rx, h1, h2, h3, h4, _⟩ := honest_feed_core c hc srv pkts hp hwf hn cs hcs
  exact ⟨rx, h1, h2, h3, h4⟩

example : ∃ rx, feedAll toyCrypto true Rx.init (bytewise (wire toyCrypto [pktA, pktB])) = (rx, none) ∧
    rx.rxBuf = [] ∧ rx.dec = ⟨2, none⟩ ∧ rx.decoded = [104, 105, 33] :=
  honest_feed toyCrypto Obfs4.toyCrypto_ok true [pktA, pktB] (by decide)
    (okPkt_wf true _ (by decide)) (by decide) _ (by decide +kernel)

/-! ## 0. the sender's frames carry exactly the written bytes, and every segmentation of them
decodes to exactly those bytes -/

/-- **frames_roundtrip**: for every sequence of `Write(data)` calls with any padding lengths the
    padding policy may choose (`≤ maxPacketPaddingLength`; `padBurst` stays within it:
    `padBurstPads_ok`), in every IAT mode (the grouping of frames into `Conn.Write`s is irrelevant
    to the receiver): no `makePacket` precondition fails, the packets' payloads concatenate to
    exactly the written bytes (padding packets carry none), and for **every** segmentation of the
    concatenated frames the receiver's buffer loop decodes exactly the written bytes, with no
    error, nothing left over, one frame per packet. -/
theorem frames_roundtrip (c : Crypto) (hc : CryptoOK c) (srv : Bool) (ws : List (Bytes × List Nat))
    (hpad : ∀ w ∈ ws, ∀ p ∈ w.2, p ≤ Consts.Obfs4.maxPacketPaddingLength) :
    ∃ pkts, allSome (txAll ws) = some pkts ∧
      pkts.flatMap (payloadOf srv) = (ws.map (·.1)).flatten ∧
      (pkts.length < ctrLimit - 1 → ∀ cs : List Bytes, cs.flatten = wire c pkts →
        ∃ rx, feedAll c srv Rx.init cs = (rx, none) ∧ rx.rxBuf = [] ∧
          rx.dec = ⟨pkts.length, none⟩ ∧ rx.decoded = (ws.map (·.1)).flatten) := by
  obtain ⟨pkts, h1, h2, h3, h4⟩ := txAll_payload srv ws hpad
  refine ⟨pkts, h1, h2, fun hn cs hcs => ?_⟩
  obtain ⟨rx, g1, g2, g3, g4⟩ := honest_feed c hc srv pkts h3 h4 hn cs hcs
  exact ⟨rx, g1, g2, g3, by rw [g4, h2]⟩

/-- the real padding policy meets the hypothesis: whatever the burst length and the sampled
    target (`0 ≤ target ≤ MaximumSegmentLength`) -/
theorem padding_policy_ok (burstLen toPadTo : Nat) (h : toPadTo ≤ Consts.Framing.maximumSegmentLength) :
    ∀ p ∈ padBurstPads burstLen toPadTo, p ≤ Consts.Obfs4.maxPacketPaddingLength :=
  padBurstPads_ok burstLen toPadTo h

/-- non-vacuity: `Write("hi")` padded to 40, then `Write("")` with two padding packets -/
example : ∃ pkts, allSome (txAll [([104, 105], padBurstPads 23 40), ([], [3, 0])]) = some pkts ∧
    pkts.flatMap (payloadOf true) = [[104, 105], []].flatten := by
  obtain ⟨pkts, h1, h2, _⟩ := frames_roundtrip toyCrypto Obfs4.toyCrypto_ok true
    [([104, 105], padBurstPads 23 40), ([], [3, 0])] (by decide)
  exact ⟨pkts, h1, h2⟩

/-- the padding lengths in that example are what `padBurst` computes: tail 23, target 40 ⇒ 17
    bytes to add, which is less than a frame header ⇒ a maximum-size padding packet plus one with
    17 bytes of padding (the burst then ends 40 bytes into a segment) -/
example : padBurstPads 23 40 = [Consts.Obfs4.maxPacketPayloadLength, 17] := by decide

/-! ## 3. no stall -/

/-- **`Read` blocks only when nothing received is left to decode**: if `Read`, entered in a
    settled state, reports "blocked" (the network has nothing to offer), then every network
    result was plain data, all of it has been run through the decoder without error
    (`feedAll`), nothing decoded is being held back, and the decoder needs more input before
    its next phase can fire (`Settled`): no completely received frame is waiting. -/
theorem no_stall (c : Crypto) (srv : Bool) (n : Nat) (rx rx' : Rx) (evs : List NetEv)
    (hs : Settled c srv rx) (h : read c srv n rx evs = .blocked rx') :
    (∀ e ∈ evs, ∃ ch, e = .data ch) ∧ rx'.decoded = [] ∧ Settled c srv rx' ∧
      feedAll c srv rx (evs.map NetEv.chunk) = (rx', none) := by
  obtain ⟨h1, h2, h3⟩ := read_blocked_feed c srv n rx rx' evs h
  exact ⟨h1, h2, feedAll_settled c srv rx _ rx' hs h3, h3⟩

/-- what `Settled` excludes: a completely received honest frame at the decoder's position -/
theorem settled_no_complete_frame (c : Crypto) (hc : CryptoOK c) (srv : Bool) (rx : Rx) (k : Nat)
    (pkt rest : Bytes) (hd : rx.dec = ⟨k, none⟩) (hk : (k + 1) % ctrLimit ≠ 0)
    (hp : pkt.length ≤ Consts.Framing.maximumFramePayloadLength)
    (hb : rx.rxBuf = frameOf c k pkt ++ rest) : ¬ Settled c srv rx :=
  Obfs4.settled_no_complete_frame c hc srv rx k pkt rest hd hk hp hb

/-- non-vacuity: frame A and the first 10 bytes of frame B have arrived and A's payload has
    been read; the next `Read` blocks -/
example : ∃ rx rx', rx.decoded = [] ∧ rx.dec.k = 1 ∧ Settled toyCrypto true rx ∧
    read toyCrypto true 8 rx [.data [0, 0, 0, 0], .data [0, 0]] = .blocked rx' ∧ rx'.rxBuf.length = 14 :=
  ⟨{ (feedAll toyCrypto true Rx.init [(wire toyCrypto [pktA, pktB]).take 33]).1 with decoded := [] },
    _, rfl, by decide +kernel, by decide +kernel, rfl, by decide +kernel⟩

example : ¬ Settled toyCrypto true { Rx.init with rxBuf := frameOf toyCrypto 0 pktA ++ [1, 2, 3] } :=
  settled_no_complete_frame toyCrypto Obfs4.toyCrypto_ok true _ 0 pktA [1, 2, 3] rfl (by decide) (by decide) rfl

/-! ## 4. data arriving in the same segment as the handshake (defect F1 and its repair) -/

/-- after the repaired client handshake the receive side is settled (so `no_stall` applies
    from the first `Read` on) -/
theorem client_start_settled (c : Crypto) (surplus : Bytes) (rx : Rx)
    (h : clientStart c true surplus = (rx, none)) : Settled c false rx :=
  clientStart_settled c surplus rx h

/-- the repaired client start state is what one network read of `surplus` into a fresh receive
    side produces -/
theorem clientStart_eq_feed (c : Crypto) (surplus : Bytes) :
    clientStart c true surplus = readPackets c false Rx.init (.data surplus) ∧
    ∀ rx, clientStart c true surplus = (rx, none) → feedAll c false Rx.init [surplus] = (rx, none) :=
  ⟨clientStart_eq_readPackets c surplus, clientStart_eq_feedAll c surplus⟩

/-- **F1 on the unchanged tree**: a complete frame with the payload `"hi"` arrived together with
    the handshake response; the first `Read` blocks although the frame sits in `receiveBuffer`. -/
theorem no_stall_counterexample :
    ∃ (surplus : Bytes) (n : Nat) (rx' : Rx) (pkt : Bytes),
      read toyCrypto false n (clientStart toyCrypto false surplus).1 [] = .blocked rx' ∧
      ¬ Settled toyCrypto false rx' ∧ rx'.rxBuf = frameOf toyCrypto 0 pkt ∧
      payloadOf false pkt = [104, 105] :=
  ⟨wire toyCrypto [pktA], 8, { Rx.init with rxBuf := wire toyCrypto [pktA] }, pktA,
    by decide +kernel, by decide +kernel, by decide +kernel, by decide +kernel⟩

/-- the same input after the repair: the payload is delivered by the first `Read` -/
example : (clientStart toyCrypto true (wire toyCrypto [pktA])).2 = none ∧
    read toyCrypto false 8 (clientStart toyCrypto true (wire toyCrypto [pktA])).1 []
      = .ret { Rx.init with dec := ⟨1, none⟩ } [104, 105] none [] := by decide +kernel

/-! ## 5. exact delivery -/

/-- **The honest stream under any segmentation and any `Read` sizes (0 included)**: no `Read`
    reports an error, what has been delivered is an initial part of the written bytes, and a
    session that ended blocked (it asked for more than the network had) has delivered *all*
    written bytes and holds nothing back. -/
theorem delivers_exactly (c : Crypto) (hc : CryptoOK c) (srv : Bool) (pkts : List Bytes)
    (hp : ∀ p ∈ pkts, p.length ≤ Consts.Framing.maximumFramePayloadLength)
    (hwf : ∀ p ∈ pkts, ∀ e, parsePacket srv p ≠ .bad e)
    (hn : pkts.length < ctrLimit - 1) (cs : List Bytes) (hcs : cs.flatten = wire c pkts)
    (ns : List Nat) :
    let r := session c srv ns Rx.init (cs.map NetEv.data)
    r.2.1 = [] ∧ r.1 <+: pkts.flatMap (payloadOf srv) ∧
      (r.2.2.2 = true → r.1 = pkts.flatMap (payloadOf srv) ∧ r.2.2.1.rxBuf = []) := by
  have hH := honest_runs c hc srv pkts 0 hp hwf (by simpa using hn)
  rw [show encodeAll c 0 pkts = Rx.init.rxBuf ++ cs.flatten from hcs.symm] at hH
  obtain ⟨d, rxf, bl, hse, hpre, hbl⟩ :=
    session_clean c srv ns Rx.init cs _ _ (settled_init c srv) hH (quiescent_empty c srv _)
  rw [decodedOf_honestOuts] at hpre hbl
  intro r
  rw [show r = (d, [], rxf, bl) from hse]
  exact ⟨rfl, (List.prefix_append d rxf.decoded).trans hpre, fun h => ⟨(hbl h).1, (hbl h).2.1⟩⟩

/-- **every byte written becomes readable without further traffic**: with enough non-empty
    `Read`s (one more than there are bytes) the session over the honest stream ends blocked,
    i.e. (by `delivers_exactly`) after delivering everything. -/
theorem delivers_all (c : Crypto) (hc : CryptoOK c) (srv : Bool) (pkts : List Bytes)
    (hp : ∀ p ∈ pkts, p.length ≤ Consts.Framing.maximumFramePayloadLength)
    (hwf : ∀ p ∈ pkts, ∀ e, parsePacket srv p ≠ .bad e)
    (hn : pkts.length < ctrLimit - 1) (cs : List Bytes) (hcs : cs.flatten = wire c pkts)
    (ns : List Nat) (hns : ∀ n ∈ ns, 0 < n) (hlen : (pkts.flatMap (payloadOf srv)).length < ns.length) :
    let r := session c srv ns Rx.init (cs.map NetEv.data)
    r.2.2.2 = true ∧ r.1 = pkts.flatMap (payloadOf srv) ∧ r.2.1 = [] ∧ r.2.2.1.rxBuf = [] := by
  have h := delivers_exactly c hc srv pkts hp hwf hn cs hcs ns
  intro r
  obtain ⟨h1, h2, h3⟩ : r.2.1 = [] ∧ r.1 <+: pkts.flatMap (payloadOf srv) ∧
      (r.2.2.2 = true → r.1 = pkts.flatMap (payloadOf srv) ∧ r.2.2.1.rxBuf = []) := h
  have hb : r.2.2.2 = true :=
    session_ends_blocked c srv ns hns _ _ r.1 r.2.2.1 r.2.2.2 (by rw [← h1])
      (Nat.lt_of_le_of_lt h2.length_le hlen)
  exact ⟨hb, (h3 hb).1, h1, (h3 hb).2⟩

/-- non-vacuity: the two-packet stream in 1-byte segments, `Read`s of sizes 1, 1, 5, 5 -/
example :
    let r := session toyCrypto true [1, 1, 5, 5] Rx.init ((bytewise (wire toyCrypto [pktA, pktB])).map NetEv.data)
    r.2.2.2 = true ∧ r.1 = [104, 105, 33] ∧ r.2.1 = [] ∧ r.2.2.1.rxBuf = [] :=
  delivers_all toyCrypto Obfs4.toyCrypto_ok true [pktA, pktB] (by decide)
    (okPkt_wf true _ (by decide)) (by decide) (bytewise (wire toyCrypto [pktA, pktB])) (by decide +kernel)
    [1, 1, 5, 5] (by decide) (by decide +kernel)

/-- a zero-size `Read` in between changes nothing; too few `Read`s deliver a proper prefix -/
example :
    (session toyCrypto true [1, 0, 1, 5, 5] Rx.init ((bytewise (wire toyCrypto [pktA, pktB])).map NetEv.data)).1
      = [104, 105, 33] ∧
    (session toyCrypto true [1, 0] Rx.init ((bytewise (wire toyCrypto [pktA, pktB])).map NetEv.data)).1 = [104] := by
  decide +kernel

/-- **5b. the client whose handshake read picked up `surplus`** (repaired tree): the handshake
    reports no error, and the session from the state it leaves satisfies the same three facts —
    in particular data that arrived with the handshake response is delivered without further
    traffic (`cs = []`: the first blocked `Read` comes after everything has been delivered). -/
theorem delivers_exactly_client (c : Crypto) (hc : CryptoOK c) (pkts : List Bytes)
    (hp : ∀ p ∈ pkts, p.length ≤ Consts.Framing.maximumFramePayloadLength)
    (hwf : ∀ p ∈ pkts, ∀ e, parsePacket false p ≠ .bad e)
    (hn : pkts.length < ctrLimit - 1) (surplus : Bytes) (cs : List Bytes)
    (hcs : surplus ++ cs.flatten = wire c pkts) (ns : List Nat) :
    (clientStart c true surplus).2 = none ∧
    let r := session c false ns (clientStart c true surplus).1 (cs.map NetEv.data)
    r.2.1 = [] ∧ r.1 <+: pkts.flatMap (payloadOf false) ∧
      (r.2.2.2 = true → r.1 = pkts.flatMap (payloadOf false) ∧ r.2.2.1.rxBuf = []) := by
  obtain ⟨rx1, d, rxf, bl, hcl, hse, hpre, hbl⟩ := client_clean c hc pkts hp hwf hn surplus cs hcs ns
  rw [hcl]
  refine ⟨rfl, ?_⟩
  intro r
  rw [show r = (d, [], rxf, bl) from hse]
  exact ⟨rfl, (List.prefix_append d rxf.decoded).trans hpre, fun h => ⟨(hbl h).1, (hbl h).2.1⟩⟩

/-- non-vacuity: frame A and 10 bytes of frame B arrive with the handshake response, the rest
    byte-wise afterwards -/
example :
    let w := wire toyCrypto [pktA, pktB]
    let r := session toyCrypto false [2, 2] (clientStart toyCrypto true (w.take 33)).1 ((bytewise (w.drop 33)).map NetEv.data)
    w.take 33 ++ (bytewise (w.drop 33)).flatten = w ∧ r.1 = [104, 105, 33] ∧ r.2.2.2 = false := by
  decide +kernel

/-- … and with enough non-empty `Read`s that client session delivers everything — when
    `cs = []`, everything that arrived with the handshake response, with no further traffic. -/
theorem delivers_all_client (c : Crypto) (hc : CryptoOK c) (pkts : List Bytes)
    (hp : ∀ p ∈ pkts, p.length ≤ Consts.Framing.maximumFramePayloadLength)
    (hwf : ∀ p ∈ pkts, ∀ e, parsePacket false p ≠ .bad e)
    (hn : pkts.length < ctrLimit - 1) (surplus : Bytes) (cs : List Bytes)
    (hcs : surplus ++ cs.flatten = wire c pkts) (ns : List Nat) (hns : ∀ n ∈ ns, 0 < n)
    (hlen : (pkts.flatMap (payloadOf false)).length < ns.length) :
    (clientStart c true surplus).2 = none ∧
    let r := session c false ns (clientStart c true surplus).1 (cs.map NetEv.data)
    r.2.2.2 = true ∧ r.1 = pkts.flatMap (payloadOf false) ∧ r.2.1 = [] ∧ r.2.2.1.rxBuf = [] := by
  obtain ⟨h0, h⟩ := delivers_exactly_client c hc pkts hp hwf hn surplus cs hcs ns
  refine ⟨h0, ?_⟩
  intro r
  obtain ⟨h1, h2, h3⟩ : r.2.1 = [] ∧ r.1 <+: pkts.flatMap (payloadOf false) ∧
      (r.2.2.2 = true → r.1 = pkts.flatMap (payloadOf false) ∧ r.2.2.1.rxBuf = []) := h
  have hb : r.2.2.2 = true :=
    session_ends_blocked c false ns hns _ _ r.1 r.2.2.1 r.2.2.2 (by rw [← h1])
      (Nat.lt_of_le_of_lt h2.length_le hlen)
  exact ⟨hb, (h3 hb).1, h1, (h3 hb).2⟩

/-- non-vacuity: both frames arrive with the handshake response, nothing afterwards -/
example :
    (clientStart toyCrypto true (wire toyCrypto [pktA, pktB])).2 = none ∧
    let r := session toyCrypto false [2, 2, 2, 2] (clientStart toyCrypto true (wire toyCrypto [pktA, pktB])).1
      (([] : List Bytes).map NetEv.data)
    r.2.2.2 = true ∧ r.1 = [104, 105, 33] ∧ r.2.1 = [] ∧ r.2.2.1.rxBuf = [] :=
  delivers_all_client toyCrypto Obfs4.toyCrypto_ok [pktA, pktB] (by decide)
    (okPkt_wf false _ (by decide)) (by decide) (wire toyCrypto [pktA, pktB]) [] (by decide +kernel)
    [2, 2, 2, 2] (by decide) (by decide +kernel)

/-! ## 6. chunk invariance of whole sessions, arbitrary bytes -/

/-- **Complete sessions over the same byte stream agree**, whatever the segmentation and the
    `Read` sizes: two sessions (stopping at the first reported error) that both ran to the end
    — blocked, or an error was reported — have delivered-or-hold the same bytes and report the
    same error.  (Bytes decoded before the error that did not fit the last `Read`'s buffer stay
    in `decoded`.) -/
theorem chunk_invariance (c : Crypto) (srv : Bool) (rx0 : Rx) (hs : Settled c srv rx0)
    (cs cs' : List Bytes) (h : cs.flatten = cs'.flatten) (ns ns' : List Nat) :
    let r := sessionUntilErr c srv ns rx0 (cs.map NetEv.data)
    let r' := sessionUntilErr c srv ns' rx0 (cs'.map NetEv.data)
    (r.2.2.2 = true ∨ r.2.1.isSome) → (r'.2.2.2 = true ∨ r'.2.1.isSome) →
      r.1 ++ r.2.2.1.decoded = r'.1 ++ r'.2.2.1.decoded ∧ r.2.1 = r'.2.1 := by
  intro r r' hc1 hc2
  obtain ⟨h1, h2, _⟩ := session_chunk_invariant c srv rx0 hs cs cs' h ns ns'
    r.1 r'.1 r.2.1 r'.2.1 r.2.2.1 r'.2.2.1 r.2.2.2 r'.2.2.2 rfl rfl hc1 hc2
  exact ⟨h1, h2⟩

example :
    let w := wire toyCrypto [pktA] ++ [206, 102, 9, 9, 9, 9, 9, 9, 9, 9, 9, 9, 9, 9, 9, 9, 9, 9, 9, 9, 9, 9, 9, 9]
    let r := sessionUntilErr toyCrypto true [1, 1, 1] Rx.init ((bytewise w).map NetEv.data)
    let r' := sessionUntilErr toyCrypto true [1] Rx.init ([w].map NetEv.data)
    r.2.1 = some (.frame .tagMismatch) ∧ r'.2.1 = some (.frame .tagMismatch) ∧
    r.1 = [104, 105] ∧ r'.1 = [104] ∧ r'.2.2.1.decoded = [105] := by decide +kernel

/-- **… also when the network stream ends with a failure** (EOF, reset, timeout, possibly
    together with final bytes): two sessions over the same bytes that ran until an error was
    reported have delivered-or-hold the same bytes, and each reports either the decoder's
    verdict on the stream (`eN`, the same for both: the first frame/packet error, if any) or
    its network failure — which of the two depends on whether the bad frame was processed in a
    network read of its own or in the one that returned the failure (`readPackets` reports the
    network error in that case, after decoding what came with it). -/
theorem chunk_invariance_fail (c : Crypto) (srv : Bool) (rx0 : Rx) (hs : Settled c srv rx0)
    (cs cs' : List Bytes) (ch ch' : Bytes) (cls cls' : String)
    (h : cs.flatten ++ ch = cs'.flatten ++ ch') (ns ns' : List Nat) (e e' : RxErr) :
    let r := sessionUntilErr c srv ns rx0 (cs.map NetEv.data ++ [.fail ch cls])
    let r' := sessionUntilErr c srv ns' rx0 (cs'.map NetEv.data ++ [.fail ch' cls'])
    r.2.1 = some e → r'.2.1 = some e' →
      r.1 ++ r.2.2.1.decoded = r'.1 ++ r'.2.2.1.decoded ∧
      ∃ eN : Option RxErr, (eN = some e ∨ e = .net cls) ∧ (eN = some e' ∨ e' = .net cls') := by
  intro r r' he he'
  obtain ⟨h1, _, _, h4⟩ := session_fail_invariant c srv rx0 hs cs cs' ch ch' cls cls' h ns ns'
    r.1 r'.1 e e' r.2.2.1 r'.2.2.1 r.2.2.2 r'.2.2.2 (by rw [← he]) (by rw [← he'])
  exact ⟨h1, h4⟩

/-- non-vacuity: the corrupted stream followed by EOF; byte-wise with a separate EOF the tag
    mismatch is reported, in one piece together with the EOF the EOF is; same bytes either way -/
example :
    let w := wire toyCrypto [pktA] ++ [206, 102, 9, 9, 9, 9, 9, 9, 9, 9, 9, 9, 9, 9, 9, 9, 9, 9, 9, 9, 9, 9, 9, 9]
    let r := sessionUntilErr toyCrypto true [8, 8] Rx.init ((bytewise w).map NetEv.data ++ [.fail [] "EOF"])
    let r' := sessionUntilErr toyCrypto true [8] Rx.init (([] : List Bytes).map NetEv.data ++ [.fail w "EOF"])
    r.2.1 = some (.frame .tagMismatch) ∧ r'.2.1 = some (.net "EOF") ∧
    r.1 = [104, 105] ∧ r'.1 = [104, 105] ∧ r.2.2.1.decoded = [] ∧ r'.2.2.1.decoded = [] := by decide +kernel

/-! ## 7. the two directions of one endpoint do not interfere -/

/-- **`Read` and `Write` commute**: the reader touches only `rx`, the writer only the encoder's
    frame index; either order of a `Read` and a `Write` gives the same endpoint state, the same
    bytes read and the same wire bytes written (and fails in the same cases). -/
theorem directions_independent (cr cw : Crypto) (srv : Bool) (ep : Endpoint) (n : Nat)
    (evs : List NetEv) (data : Bytes) (pads : List Nat) :
    ((ep.read cr srv n evs).bind fun r => (r.1.write cw data pads).map fun w => (w.1, r.2, w.2))
      = ((ep.write cw data pads).bind fun w => (w.1.read cr srv n evs).map fun r => (r.1, r.2, w.2)) ∧
    (∀ ep' w, ep.write cw data pads = some (ep', w) → ep'.rx = ep.rx) ∧
    (∀ ep' bytes err rest, ep.read cr srv n evs = some (ep', bytes, err, rest) → ep'.txK = ep.txK) :=
  ⟨read_write_commute cr cw srv ep n evs data pads,
   fun ep' w h => write_keeps_rx cw ep ep' data pads w h,
   fun ep' bytes err rest h => read_keeps_txK cr srv ep ep' n evs rest bytes err h⟩

example :
    (((Endpoint.mk Rx.init 0).read toyCrypto true 8 [.data (wire toyCrypto [pktA])]).bind
      (fun r => (r.1.write toyCrypto [1, 2, 3] [4]).map fun w => (w.1, r.2, w.2))).map
      (fun x => (x.1.txK, x.1.rx.dec.k, x.2.1.1, x.2.2.length)) = some (2, 1, [104, 105], 49) := by
  have h1 : chop Consts.Obfs4.maxPacketPayloadLength [1, 2, 3] = [[1, 2, 3]] := by
    rw [chop_cons _ _ (by decide) (by decide)]
    rw [show ([1, 2, 3] : Bytes).drop Consts.Obfs4.maxPacketPayloadLength = [] by decide, chop_nil]
    decide
  simp only [Endpoint.write, txPackets, h1]
  decide +kernel

/-! ## 8. the toy link crypto of the examples satisfies the crypto hypothesis -/

/-- **the Go reader and writer share no connection state but the underlying conn and the
    (mutex-protected) distributions**: the receiver fields `obfs4Conn.Read` touches (transitively,
    through `readPackets`/`processReceiveBuffer`) and those `obfs4Conn.Write` touches (through
    `makePacket`/`padBurst`) are extracted from the Go source on every run
    (`O4/Generated/Facts/Obfs4.lean`, go/ast); their intersection is `Conn`, `lenDist`, `iatDist`.
    So one reader goroutine and one writer goroutine per endpoint interleave without touching
    each other's framing state — the model's `Endpoint` (reader: `rx`, writer: `txK`) is faithful
    in keeping them apart.  A change that makes `Write` touch `receiveBuffer`/`decoder` (or `Read`
    the `encoder`) breaks this proof. -/
theorem reader_writer_state_disjoint :
    ∀ f, f ∈ O4.Facts.Obfs4.obfs4Conn_Read_fields → f ∈ O4.Facts.Obfs4.obfs4Conn_Write_fields →
      f ∈ ["Conn", "lenDist", "iatDist"] := by decide

/-- … and the fields that carry a direction's framing state are private to their side -/
theorem framing_state_private :
    "encoder" ∉ O4.Facts.Obfs4.obfs4Conn_Read_fields ∧
    "decoder" ∉ O4.Facts.Obfs4.obfs4Conn_Write_fields ∧
    "receiveBuffer" ∉ O4.Facts.Obfs4.obfs4Conn_Write_fields ∧
    "receiveDecodedBuffer" ∉ O4.Facts.Obfs4.obfs4Conn_Write_fields ∧
    "decoder" ∈ O4.Facts.Obfs4.obfs4Conn_Read_fields ∧
    "encoder" ∈ O4.Facts.Obfs4.obfs4Conn_Write_fields := by decide

/-! ## 9. end to end: handshake read loop ∘ key schedule ∘ data phase

Model `O4/Model/Obfs4EndToEnd.lean` (`clientConnect`, `serverConnect`: `obfs4.go`'s
`clientHandshake` / `serverHandshake` after the F1 repair, as functions of the list of chunks the
network delivers); lemmas `O4/Lemmas/Obfs4EndToEnd.lean`, `O4/Lemmas/HandshakeGenuine.lean` (the
stable re-parser of C02).  The primitives are abstract (`Handshake.Prims` with the explicit
hypotheses `HmacLen`, `DhComm`), the link crypto of a 72-byte key block is any
`link : Bytes → Framing.Crypto` with `CryptoOK` — the deployed `Ref.linkCrypto` is one
(`link_crypto_deployed_ok`), the toy one of the examples another. -/

open O4.Handshake O4.E2E O4.HsGenuine in
/-- **`client_session_any_chunking`** (`leftover_kept`, composed).  The genuine server's flight
    `response ‖ seed frame ‖ frames of pkts` (sealed with the server's encoder key block
    `okm[72:144]` of the server's KEY_SEED; `DhComm`, and `NoEarlyMark` for the response padding as in
    `C02.any_chunking`) reaches a fresh client in ANY chunking `cs`, and the application reads with
    ANY buffer sizes `ns`.  Then: `Dial` completes exactly at the first chunk boundary `j` at or
    beyond `|response|`; its key blocks are `okm[0:72]` / `okm[72:144]` of the *server's* KEY_SEED; the
    frames that arrived up to that boundary have already been decoded (the receive side is
    `Settled`: `no_stall` applies from the first `Read`); no `Read` ever reports an error; what
    the session delivers is an initial part of the payload of `pkts`; and a session that ended
    blocked has delivered exactly that payload, holds nothing back, and has adopted exactly the
    seed of the inline seed frame followed by the seeds of the seed packets among `pkts`. -/
theorem client_session_any_chunking (P : Prims) (Pair : Bytes → Bytes → Prop) (link : Bytes → Crypto)
    (hlink : ∀ k, CryptoOK (link k)) (hP : HsLemmas.HmacLen P) (hD : DhComm P Pair)
    (c : Client) (hc : c.cache = none) (G : Genuine P Pair c) (hno : G.NoEarlyMark)
    (seed : Bytes) (hseed : seed.length = Consts.Obfs4.seedPacketPayloadLength) (pkts : List Bytes)
    (hp : ∀ p ∈ pkts, p.length ≤ Consts.Framing.maximumFramePayloadLength)
    (hwf : ∀ p ∈ pkts, ∀ e, parsePacket false p ≠ .bad e)
    (hn : pkts.length + 1 < ctrLimit - 1) (cs : List Bytes)
    (hcs : cs.flatten = G.response ++ serverFlight (link (serverEncKey (okm P G.keySeed))) seed pkts)
    (ns : List Nat) :
    ∃ j rx,
      clientConnect P link c cs = .established (clientEncKey (okm P G.keySeed))
        (clientDecKey (okm P G.keySeed)) rx (cs.drop (j + 1)) ∧
      j < cs.length ∧ (cs.take j).flatten.length < G.response.length ∧
      G.response.length ≤ (cs.take (j + 1)).flatten.length ∧
      Settled (link (clientDecKey (okm P G.keySeed))) false rx ∧
      let r := session (link (clientDecKey (okm P G.keySeed))) false ns rx ((cs.drop (j + 1)).map NetEv.data)
      r.2.1 = [] ∧ r.1 <+: pkts.flatMap (payloadOf false) ∧
        (r.2.2.2 = true → r.1 = pkts.flatMap (payloadOf false) ∧ r.2.2.1.rxBuf = [] ∧
          r.2.2.1.decoded = [] ∧ r.2.2.1.seeds = seed :: seedsOf (honestOuts false pkts)) := by
  obtain ⟨j, rx, d, rxf, bl, h1, h2, h3, h4, h5, h6, h7, h8⟩ :=
    client_e2e P Pair link hlink hP hD c G hno (Or.inl hc) seed hseed pkts hp hwf hn cs hcs ns
  refine ⟨j, rx, h1, h2, h3, h4, h5, ?_⟩
  intro r
  rw [show r = (d, [], rxf, bl) from h6]
  exact ⟨rfl, (List.prefix_append d rxf.decoded).trans h7, h8⟩

open O4.Handshake O4.E2E O4.HsGenuine in
/-- … and with enough non-empty `Read`s (one more than there are payload bytes) that session
    ends blocked, i.e. **every byte the server wrote is delivered**, whatever the chunking. -/
theorem client_session_delivers_all (P : Prims) (Pair : Bytes → Bytes → Prop) (link : Bytes → Crypto)
    (hlink : ∀ k, CryptoOK (link k)) (hP : HsLemmas.HmacLen P) (hD : DhComm P Pair)
    (c : Client) (hc : c.cache = none) (G : Genuine P Pair c) (hno : G.NoEarlyMark)
    (seed : Bytes) (hseed : seed.length = Consts.Obfs4.seedPacketPayloadLength) (pkts : List Bytes)
    (hp : ∀ p ∈ pkts, p.length ≤ Consts.Framing.maximumFramePayloadLength)
    (hwf : ∀ p ∈ pkts, ∀ e, parsePacket false p ≠ .bad e)
    (hn : pkts.length + 1 < ctrLimit - 1) (cs : List Bytes)
    (hcs : cs.flatten = G.response ++ serverFlight (link (serverEncKey (okm P G.keySeed))) seed pkts)
    (ns : List Nat) (hns : ∀ n ∈ ns, 0 < n) (hlen : (pkts.flatMap (payloadOf false)).length < ns.length) :
    ∃ j rx,
      clientConnect P link c cs = .established (clientEncKey (okm P G.keySeed))
        (clientDecKey (okm P G.keySeed)) rx (cs.drop (j + 1)) ∧ j < cs.length ∧
      let r := session (link (clientDecKey (okm P G.keySeed))) false ns rx ((cs.drop (j + 1)).map NetEv.data)
      r.2.2.2 = true ∧ r.1 = pkts.flatMap (payloadOf false) ∧ r.2.1 = [] ∧ r.2.2.1.rxBuf = [] ∧
        r.2.2.1.seeds = seed :: seedsOf (honestOuts false pkts) := by
  obtain ⟨j, rx, h1, h2, _, _, _, h⟩ :=
    client_session_any_chunking P Pair link hlink hP hD c hc G hno seed hseed pkts hp hwf hn cs hcs ns
  refine ⟨j, rx, h1, h2, ?_⟩
  intro r
  obtain ⟨g1, g2, g3⟩ : r.2.1 = [] ∧ r.1 <+: pkts.flatMap (payloadOf false) ∧
      (r.2.2.2 = true → r.1 = pkts.flatMap (payloadOf false) ∧ r.2.2.1.rxBuf = [] ∧
        r.2.2.1.decoded = [] ∧ r.2.2.1.seeds = seed :: seedsOf (honestOuts false pkts)) := h
  have hb : r.2.2.2 = true :=
    session_ends_blocked _ false ns hns _ _ r.1 r.2.2.1 r.2.2.2 (by rw [← g1])
      (Nat.lt_of_le_of_lt g2.length_le hlen)
  exact ⟨hb, (g3 hb).1, g1, (g3 hb).2.1, (g3 hb).2.2.2⟩

open O4.Handshake O4.E2E O4.HsGenuine in
/-- **`no_stall`, composed: everything in ONE segment.**  When the response, the seed frame and
    all data frames arrive in a single chunk, `Dial` completes on it, nothing is left on the
    network, and the application's `Read`s obtain every payload byte with **no further network
    event** (the event list of the session is empty). -/
theorem client_one_segment_no_stall (P : Prims) (Pair : Bytes → Bytes → Prop) (link : Bytes → Crypto)
    (hlink : ∀ k, CryptoOK (link k)) (hP : HsLemmas.HmacLen P) (hD : DhComm P Pair)
    (c : Client) (hc : c.cache = none) (G : Genuine P Pair c) (hno : G.NoEarlyMark)
    (seed : Bytes) (hseed : seed.length = Consts.Obfs4.seedPacketPayloadLength) (pkts : List Bytes)
    (hp : ∀ p ∈ pkts, p.length ≤ Consts.Framing.maximumFramePayloadLength)
    (hwf : ∀ p ∈ pkts, ∀ e, parsePacket false p ≠ .bad e)
    (hn : pkts.length + 1 < ctrLimit - 1)
    (ns : List Nat) (hns : ∀ n ∈ ns, 0 < n) (hlen : (pkts.flatMap (payloadOf false)).length < ns.length) :
    ∃ rx,
      clientConnect P link c [G.response ++ serverFlight (link (serverEncKey (okm P G.keySeed))) seed pkts]
        = .established (clientEncKey (okm P G.keySeed)) (clientDecKey (okm P G.keySeed)) rx [] ∧
      let r := session (link (clientDecKey (okm P G.keySeed))) false ns rx []
      r.2.2.2 = true ∧ r.1 = pkts.flatMap (payloadOf false) ∧ r.2.1 = [] ∧ r.2.2.1.seeds = seed :: seedsOf (honestOuts false pkts) := by
  obtain ⟨j, rx, h1, h2, h⟩ :=
    client_session_delivers_all P Pair link hlink hP hD c hc G hno seed hseed pkts hp hwf hn
      [G.response ++ serverFlight (link (serverEncKey (okm P G.keySeed))) seed pkts] (by simp) ns hns hlen
  have hj : j = 0 := by simpa using h2
  subst hj
  simp only [Nat.zero_add, List.drop_succ_cons, List.drop_zero, List.map_nil] at h1 h
  refine ⟨rx, h1, ?_⟩
  intro r
  obtain ⟨g1, g2, g3, _, g5⟩ := h
  exact ⟨g1, g2, g3, g5⟩

/-- non-vacuity (client): the toy genuine pair of C02, seed frame + two packets, delivered
    byte-wise; `Read`s of sizes 2, 2, 2, 2 obtain `"hi!"` -/
example :
    let G := O4.HsGenuine.toyGenuine
    let w := G.response ++ O4.E2E.serverFlight toyCrypto (List.replicate 24 7) [pktA, pktB]
    ∃ j rx, O4.E2E.clientConnect HsLemmas.toyPrims (fun _ => toyCrypto) O4.HsGenuine.toyClient (bytewise w)
        = .established (Handshake.clientEncKey (Handshake.okm HsLemmas.toyPrims G.keySeed))
            (Handshake.clientDecKey (Handshake.okm HsLemmas.toyPrims G.keySeed)) rx ((bytewise w).drop (j + 1)) ∧
      j < (bytewise w).length ∧
      let r := session toyCrypto false [2, 2, 2, 2] rx (((bytewise w).drop (j + 1)).map NetEv.data)
      r.2.2.2 = true ∧ r.1 = [pktA, pktB].flatMap (payloadOf false) ∧ r.2.1 = [] ∧ r.2.2.1.rxBuf = [] ∧
        r.2.2.1.seeds = List.replicate 24 7 :: seedsOf (honestOuts false [pktA, pktB]) :=
  client_session_delivers_all HsLemmas.toyPrims _ (fun _ => toyCrypto) (fun _ => Obfs4.toyCrypto_ok)
    (fun k m => by simp [HsLemmas.toyPrims, Consts.Ntor.keySeedLength]; omega)
    O4.HsGenuine.toy_dhComm O4.HsGenuine.toyClient rfl O4.HsGenuine.toyGenuine O4.HsGenuine.toy_noEarlyMark
    (List.replicate 24 7) (by decide) [pktA, pktB] (by decide) (okPkt_wf false _ (by decide)) (by decide)
    _ (O4.E2E.singletons_flatten _) [2, 2, 2, 2] (by decide) (by decide +kernel)

open O4.Handshake O4.E2E in
/-- **`server_session_any_chunking`.**  A genuine client handshake (`GenuineC`: the representative
    decodes to the client's public key, admissible padding, the client's hour within ±1 of the
    server's, not a replay, ntor succeeds; `NoEarlyMark`: no proper prefix ends in `M_C ‖ 16 bytes`)
    reaches a fresh server in ANY chunking `cs1` **that ends with the handshake** — the client cannot
    send data before it has the keys, and the code accepts only when `M_C ‖ MAC_C` are the last bytes
    received (`len(resp) == pos+markLength+macLength`; see `server_trailing_bytes` for what it
    does otherwise) — followed by the client's frames in any chunking `cs2`.  Then `WrapConn`
    completes at the end of `cs1` with the key blocks of the server's KEY_SEED (decoder = `okm[0:72]`
    = the client's encoder block), an empty receive buffer, the chunks of `cs2` left on the network,
    and the server's session delivers, without error, an initial part of the payload of `pkts` —
    all of it when it ends blocked. -/
theorem server_session_any_chunking (P : Prims) (link : Bytes → Crypto) (hlink : ∀ k, CryptoOK (link k))
    (hP : HsLemmas.HmacLen P) (s0 : Server) (hs0 : s0.cache = none) (C : GenuineC P s0)
    (hno : C.NoEarlyMark) (f : RF.Filter) (H now : Int)
    (hwin : ∃ off ∈ ([0, -1, 1] : List Int), C.hour = H + off)
    (hnr : NotReplay P s0 f H now C.blob C.pos)
    (padS lenSeed : Bytes) (pkts : List Bytes)
    (hp : ∀ p ∈ pkts, p.length ≤ Consts.Framing.maximumFramePayloadLength)
    (hwf : ∀ p ∈ pkts, ∀ e, parsePacket true p ≠ .bad e)
    (hn : pkts.length < ctrLimit - 1) (cs1 cs2 : List Bytes) (hcs1 : cs1.flatten = C.blob)
    (hcs2 : cs2.flatten = wire (link (clientEncKey (okm P C.keySeed))) pkts) (ns : List Nat) :
    ∃ s' f' written rest,
      serverConnect P link s0 f H now padS lenSeed (cs1 ++ cs2) =
        .established s' f' written (serverEncKey (okm P C.keySeed)) (serverDecKey (okm P C.keySeed))
          serverStart rest ∧
      rest.flatten = cs2.flatten ∧
      let r := session (link (serverDecKey (okm P C.keySeed))) true ns serverStart (rest.map NetEv.data)
      r.2.1 = [] ∧ r.1 <+: pkts.flatMap (payloadOf true) ∧
        (r.2.2.2 = true → r.1 = pkts.flatMap (payloadOf true) ∧ r.2.2.1.rxBuf = [] ∧ r.2.2.1.decoded = []) := by
  obtain ⟨s', f', written, rest, d, rxf, bl, h1, h2, h3, h4, h5⟩ :=
    server_e2e P link hlink hP s0 hs0 C hno f H now hwin hnr padS lenSeed pkts hp hwf hn cs1 cs2 hcs1 hcs2 ns
  refine ⟨s', f', written, rest, h1, h2, ?_⟩
  intro r
  rw [show r = (d, [], rxf, bl) from h3]
  exact ⟨rfl, (List.prefix_append d rxf.decoded).trans h4, h5⟩

open O4.Handshake in
/-- **what the server does with trailing bytes**: a buffer in which `M_C` is not where the tail
    search looks (in particular `handshake ‖ extra` with `extra ≠ []`, unless 16 bytes of `extra`
    or of the shifted tail happen to equal the mark) is never accepted — the call answers
    `ErrMarkNotFoundYet` below 8192 bytes and `ErrInvalidHandshake` from 8192 on, and does not
    touch the replay filter. -/
theorem server_trailing_bytes (P : Prims) (s : Server) (f : RF.Filter) (H now : Int) (buf : Bytes)
    (hlen : Consts.Obfs4.clientMinHandshakeLength ≤ buf.length) (htail : markPos P s buf = none) :
    parseClientHandshake P s f H now buf =
      (withCache P s buf, f,
        .err (if buf.length ≥ Consts.Obfs4.maxHandshakeLength then .invalidHandshake else .markNotFoundYet)) := by
  rw [parse_unfold, if_neg (by omega), htail]
  simp only
  split <;> rfl

open O4.Handshake O4.E2E in
/-- **`both_directions_keys`**: from one KEY_SEED both ends derive the same two 72-byte key
    blocks, crossed — the client's encoder link crypto is the server's decoder link crypto and
    vice versa, as `Framing.Crypto` values of the deployed instantiation — and each satisfies
    `CryptoOK`, so the data-phase theorems of this file apply in both directions. -/
theorem both_directions_keys (P : Prims) (hK : HsLemmas.HkdfLen P) (keySeed : Bytes) (rnd : Nat → Nat) :
    Ref.linkCrypto (clientEncKey (okm P keySeed)) rnd = Ref.linkCrypto (serverDecKey (okm P keySeed)) rnd ∧
    Ref.linkCrypto (serverEncKey (okm P keySeed)) rnd = Ref.linkCrypto (clientDecKey (okm P keySeed)) rnd ∧
    CryptoOK (Ref.linkCrypto (clientEncKey (okm P keySeed)) rnd) ∧
    CryptoOK (Ref.linkCrypto (serverEncKey (okm P keySeed)) rnd) ∧
    (clientEncKey (okm P keySeed)).length = Consts.Framing.KeyLength ∧
    (serverEncKey (okm P keySeed)).length = Consts.Framing.KeyLength ∧
    clientEncKey (okm P keySeed) ++ serverEncKey (okm P keySeed) = okm P keySeed :=
  ⟨rfl, rfl, refLink_ok _ _, refLink_ok _ _, (okm_split P hK keySeed).1, (okm_split P hK keySeed).2.1,
    (okm_split P hK keySeed).2.2⟩

/-- the deployed link crypto (XSalsa20-Poly1305 box, SipHash-OFB length mask) is an admissible
    `link` for the end-to-end theorems -/
theorem link_crypto_deployed_ok (rnd : Nat → Nat) : ∀ k, CryptoOK (Ref.linkCrypto k rnd) :=
  fun k => O4.E2E.refLink_ok k rnd

example : HsLemmas.HkdfLen HsLemmas.toyPrims := fun s _ _ n _ => by simp [HsLemmas.toyPrims]

/-! non-vacuity (server): a toy server, a toy genuine client handshake with 80 bytes of padding in
    one-byte chunks (three proper prefixes are long enough to be searched), then two packets from
    the client in one-byte chunks; the toy "HMAC" `toyPrimsR` depends on the hour -/
private def toySrv : Handshake.Server :=
  { yPriv := [2, 3], yPub := [2, 3], yRepr := [2, 3], idPriv := [5, 7], idPub := [5, 7], nodeID := [9],
    cache := none, hour := none, auth := none }

private def toyC : O4.E2E.GenuineC O4.E2E.toyPrimsR toySrv where
  xRepr := List.replicate 32 2
  xPub := List.replicate 32 2
  pad := List.replicate 80 1
  hour := 480001
  repr_len := rfl
  repr_x := rfl
  pad_lo := by decide
  pad_hi := by decide
  ntor_ok := by decide

private theorem toyC_noEarly : toyC.NoEarlyMark := by
  intro L h1 h2
  have hl : toyC.blob.length = 144 := by decide +kernel
  have h1' : 141 ≤ L := h1
  have : L = 141 ∨ L = 142 ∨ L = 143 := by omega
  rcases this with rfl | rfl | rfl <;> decide +kernel

example :
    let w := wire toyCrypto [pktA, pktB]
    ∃ s' f' written rest,
      O4.E2E.serverConnect O4.E2E.toyPrimsR (fun _ => toyCrypto) toySrv Obfs4Server.newFilter 480000 12345 [8, 8]
          (List.replicate 24 7) (bytewise toyC.blob ++ bytewise w) =
        .established s' f' written (Handshake.serverEncKey (Handshake.okm O4.E2E.toyPrimsR toyC.keySeed))
          (Handshake.serverDecKey (Handshake.okm O4.E2E.toyPrimsR toyC.keySeed)) serverStart rest ∧
      rest.flatten = (bytewise w).flatten ∧
      let r := session toyCrypto true [5, 5] serverStart (rest.map NetEv.data)
      r.2.1 = [] ∧ r.1 <+: [pktA, pktB].flatMap (payloadOf true) ∧
        (r.2.2.2 = true → r.1 = [pktA, pktB].flatMap (payloadOf true) ∧ r.2.2.1.rxBuf = [] ∧ r.2.2.1.decoded = []) :=
  server_session_any_chunking O4.E2E.toyPrimsR (fun _ => toyCrypto) (fun _ => Obfs4.toyCrypto_ok)
    O4.E2E.toyPrimsR_hmacLen
    toySrv rfl toyC toyC_noEarly Obfs4Server.newFilter 480000 12345
    ⟨1, by decide, rfl⟩ (by unfold O4.Handshake.NotReplay; exact O4.E2E.ne_error_of_isOk (by decide +kernel))
    [8, 8] (List.replicate 24 7) [pktA, pktB] (by decide) (okPkt_wf true _ (by decide)) (by decide)
    (bytewise toyC.blob) (bytewise (wire toyCrypto [pktA, pktB])) (O4.E2E.singletons_flatten _)
    (O4.E2E.singletons_flatten _) [5, 5]

/-- the hypothesis of `server_trailing_bytes` on `handshake ‖ 3 bytes` -/
example : O4.Handshake.markPos O4.E2E.toyPrimsR toySrv (toyC.blob ++ [1, 2, 3]) = none := by decide +kernel

/-! ## temporary read errors (a read deadline that fires, …) lose nothing -/

private theorem processBuffer_settled (c : Crypto) (srv : Bool) (rx : Rx) (fuel : Nat)
    (hs : Settled c srv rx) : processBuffer c srv fuel rx = (rx, none) := by
  unfold Settled at hs
  cases fuel with
  | zero => rfl
  | succ n => rw [processBuffer, hs]

/-- **a failing network read leaves the receive side untouched**: in a settled state (every state
    `Read` blocks in, `no_stall`) a `readPackets` whose underlying `Read` returns `0, err` reports
    that error and keeps `receiveBuffer` — the partial frame buffered so far —, the decoder state
    (`nextLength`, nonce counter), the decoded bytes and the seeds exactly as they were. -/
theorem read_error_keeps_buffer (c : Crypto) (srv : Bool) (rx : Rx) (cls : String)
    (hs : Settled c srv rx) :
    readPackets c srv rx (.fail [] cls) = (rx, some (.net cls)) := by
  have h : ({ rx with rxBuf := rx.rxBuf ++ [] } : Rx) = rx := by simp
  simp only [readPackets, h, processBuffer_settled c srv rx _ hs]

/-- **`Read` reports the error and the stream goes on as if nothing had happened**: with nothing
    decoded pending, `Read` hands the caller the network error, no bytes, the unchanged state and
    the untouched rest of the network's future — so a caller that clears its deadline and keeps
    reading is, from then on, in exactly the situation `chunk_invariance`/`delivers_exactly` speak
    about. -/
theorem read_error_is_transparent (c : Crypto) (srv : Bool) (n : Nat) (rx : Rx) (cls : String)
    (evs : List NetEv) (hs : Settled c srv rx) (hd : rx.decoded = []) :
    read c srv n rx (.fail [] cls :: evs) = .ret rx [] (some (.net cls)) evs := by
  have hrp := read_error_keeps_buffer c srv rx cls hs
  obtain ⟨dec, buf, decoded, seeds⟩ := rx
  simp only at hd
  subst hd
  unfold Obfs4.read
  simp [hrp]

/-- non-vacuity: half a frame buffered, a timeout, then the rest: the payload is delivered -/
example :
    let w := wire toyCrypto [pktA]
    let r := session toyCrypto true [8, 8] Rx.init [.data (w.take 9), .fail [] "timeout", .data (w.drop 9)]
    r.1 = [104, 105] ∧ r.2.1 = [.net "timeout"] := by decide +kernel

/-! ## the repaired `Read` reports an error only after all decoded payload (model `readHeld`) -/

/-- **no decoded byte is withheld at an error**: whenever the repaired `Read` reports an error,
    `receiveDecodedBuffer` is empty and no error is held back any more — a caller that stops at
    the first error (`io.ReadAll`, `io.Copy`), with any buffer size, has received every byte that
    was decoded before the error.  (False for `read`, the `Read` before the repair: it reports the
    error with `decoded.drop n` still pending.) -/
theorem read_error_after_all_decoded (c : Crypto) (srv : Bool) (n : Nat) (st st' : Rd)
    (evs rest : List NetEv) (bytes : Bytes) (e : RxErr)
    (h : readHeld c srv n st evs = .ret st' bytes (some e) rest) :
    st'.rx.decoded = [] ∧ st'.held = none := by
  unfold readHeld at h
  split at h
  · simp only at h
    split at h
    · cases h
    · rename_i hlen
      injection h with h1 _ _ _
      subst h1
      exact ⟨List.eq_nil_of_length_eq_zero (by simpa using hlen), rfl⟩
  · rename_i hd
    have hd0 : st.rx.decoded = [] := List.eq_nil_of_length_eq_zero (by simpa using hd)
    split at h
    · cases h; exact ⟨hd0, rfl⟩
    · split at h
      · cases h
      · cases h
      · split at h
        · cases h
        · rename_i hlen
          cases h
          exact ⟨List.eq_nil_of_length_eq_zero (by simpa using hlen), rfl⟩

/-- **a held-back error is reported exactly once and not latched**: with nothing decoded pending
    the held error is returned, no network event is consumed, the receive side is untouched, and
    the next `Read` goes to the network again (`held = none`). -/
theorem held_error_reported_once (c : Crypto) (srv : Bool) (n : Nat) (rx : Rx) (e : RxErr)
    (evs : List NetEv) (hd : rx.decoded = []) :
    readHeld c srv n ⟨rx, some e⟩ evs = .ret ⟨rx, none⟩ [] (some e) evs := by
  simp [readHeld, hd]

/-- without an error nothing changes: the repaired `Read` returns what `read` returns -/
theorem readHeld_eq_read_of_no_error (c : Crypto) (srv : Bool) (n : Nat) (rx rx' : Rx)
    (evs rest : List NetEv) (bytes : Bytes) (hd : rx.decoded = [])
    (h : Obfs4.read c srv n rx evs = .ret rx' bytes none rest) :
    readHeld c srv n ⟨rx, none⟩ evs = .ret ⟨rx', none⟩ bytes none rest := by
  simp [readHeld, hd, h]

/-- non-vacuity: 2 payload bytes arrive together with EOF, 1-byte `Read`s: byte, then byte + EOF -/
example :
    let w := wire toyCrypto [pktA]
    (match readHeld toyCrypto true 1 ⟨Rx.init, none⟩ [.fail w "eof"] with
      | .ret st b e _ => (b, e, st.held, st.rx.decoded) | .blocked _ => ([], none, none, []))
      = ([104], none, some (.net "eof"), [105]) ∧
    (match readHeld toyCrypto true 1 ⟨{ Rx.init with dec := ⟨1, none⟩, decoded := [105] }, some (.net "eof")⟩ [] with
      | .ret st b e _ => (b, e, st.held, st.rx.decoded) | .blocked _ => ([], none, none, []))
      = ([105], some (.net "eof"), none, []) := by decide +kernel

theorem toyCrypto_ok : CryptoOK toyCrypto := Obfs4.toyCrypto_ok


/-- **structural fact, regenerated from the Go source on every run (go/ast)**: every package-level
    variable (file-scope `var`) of the packages this property's mechanisms live in
    (transports/obfs4, transports/obfs4/framing, common/drbg) is one of the names below — error values, fixed byte strings,
    flags and function hooks that the code only reads after initialisation.  The models treat all
    other state as owned by one connection / one object; a NEW package-level variable (a cache, a
    pool, a scratch buffer, a pre-keyed hash shared "to save allocations") is how such state comes
    to be shared between connections and goroutines, which compiles, passes the tests and typically
    needs true parallelism or a multi-connection history to misbehave.  Adding one breaks this
    theorem; the concurrent / multi-connection families of the harness then search for the failing
    schedule. -/
theorem no_new_package_level_state :
    O4.Facts.Obfs4.pkg_vars ⊆ ["ErrInvalidHandshake", "ErrMarkNotFoundYet", "ErrNtorFailed", "ErrReplayedHandshake", "biasedDist", "zeroPadBytes"] ∧
    O4.Facts.Framing.pkg_vars ⊆ ["ErrAgain", "ErrNonceCounterWrapped", "ErrTagMismatch"] ∧
    O4.Facts.Drbg.pkg_vars ⊆ [] := by
  decide

end C01
