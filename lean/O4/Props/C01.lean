import O4.Lemmas.Obfs4Chunk
import O4.Lemmas.Obfs4Tx
import O4.Generated.Facts.Obfs4
/-!
# C01 — obfs4 delivers the exact byte stream under any segmentation; every byte written becomes
readable without further traffic, including data arriving in the same segment as the handshake

Property theorems only (receive side; helper lemmas: `O4/Lemmas/Obfs4Chunk.lean`,
`O4/Lemmas/Framing.lean`, `O4/Lemmas/Incremental.lean`; model: `O4/Model/Obfs4Conn.lean`,
`O4/Model/Obfs4Session.lean`, `O4/Model/Framing.lean`).  The link crypto is abstract: the
theorems about arbitrary byte streams hold for every `Crypto`, those about the honest stream
for every `Crypto` satisfying `CryptoOK` (seal/open round trip, 16 bytes of overhead).
-/
set_option autoImplicit false

namespace C01
open O4 O4.Obfs4 O4.Framing

/-! concrete instance for the non-vacuity examples: two packets, `"hi"` and `"!"` + 2 bytes of
    padding, under the toy link crypto; 47 wire bytes -/
private def pktA : Bytes := [0, 0, 2, 104, 105]
private def pktB : Bytes := [0, 0, 1, 33, 0, 0]
private def bytewise (b : Bytes) : List Bytes := b.map (fun x => [x])

/-! ## 1. chunk invariance of the receive path, arbitrary bytes -/

/-- **Any two segmentations of the same byte stream** (honest or not), fed from a settled state,
    end with the same error verdict, decoder state, decoded bytes and adopted seeds; without an
    error also with the same receive buffer.  (After an error the buffers differ only in how
    much of the stream had been buffered when the error struck.)  `Settled` is necessary: from a
    non-settled state the chunkings `[]` and `[[]]` differ — that is defect F1. -/
theorem chunk_invariance_feed (c : Crypto) (srv : Bool) (rx0 : Rx) (hs : Settled c srv rx0)
    (cs cs' : List Bytes) (h : cs.flatten = cs'.flatten) :
    let r := feedAll c srv rx0 cs
    let r' := feedAll c srv rx0 cs'
    r.2 = r'.2 ∧ r.1.dec = r'.1.dec ∧ r.1.decoded = r'.1.decoded ∧ r.1.seeds = r'.1.seeds ∧
      (r.2 = none → r.1.rxBuf = r'.1.rxBuf) :=
  feed_chunk_invariant c srv rx0 hs cs cs' h _ _ _ _ rfl rfl

/-- non-vacuity: a stream whose second frame is corrupted, whole vs. byte-wise: both report the
    tag mismatch after delivering the first payload -/
example :
    let w := wire toyCrypto [pktA] ++ [206, 102, 9, 9, 9, 9, 9, 9, 9, 9, 9, 9, 9, 9, 9, 9, 9, 9, 9, 9, 9, 9, 9, 9]
    Settled toyCrypto true Rx.init ∧ [w].flatten = (bytewise w).flatten ∧
    (feedAll toyCrypto true Rx.init (bytewise w)).2 = some (.frame .tagMismatch) ∧
    (feedAll toyCrypto true Rx.init (bytewise w)).1.decoded = [104, 105] ∧
    (feedAll toyCrypto true Rx.init [w]).1.decoded = [104, 105] := by decide +kernel

/-- `Settled` cannot be dropped: with a complete frame sitting undecoded in the buffer, "no
    network read" and "one empty network read" differ -/
example :
    let rx0 : Rx := { Rx.init with rxBuf := wire toyCrypto [pktA] }
    ([] : List Bytes).flatten = [([] : Bytes)].flatten ∧ ¬ Settled toyCrypto false rx0 ∧
    (feedAll toyCrypto false rx0 []).1.decoded = [] ∧
    (feedAll toyCrypto false rx0 [[]]).1.decoded = [104, 105] := by decide +kernel

/-! ## 2. the honest stream, any segmentation -/

/-- **Every segmentation of the honest wire stream decodes to exactly the packets' payload**,
    without error, leaving nothing in the receive buffer. -/
theorem honest_feed (c : Crypto) (hc : CryptoOK c) (srv : Bool) (pkts : List Bytes)
    (hp : ∀ p ∈ pkts, p.length ≤ Consts.Framing.maximumFramePayloadLength)
    (hwf : ∀ p ∈ pkts, ∀ e, parsePacket srv p ≠ .bad e)
    (hn : pkts.length < ctrLimit - 1) (cs : List Bytes) (hcs : cs.flatten = wire c pkts) :
    ∃ rx, feedAll c srv Rx.init cs = (rx, none) ∧ rx.rxBuf = [] ∧ rx.dec = ⟨pkts.length, none⟩ ∧
      rx.decoded = pkts.flatMap (payloadOf srv) := by
  obtain ⟨rx, h1, h2, h3, h4, _⟩ := honest_feed_core c hc srv pkts hp hwf hn cs hcs
  exact ⟨rx, h1, h2, h3, h4⟩

example : ∃ rx, feedAll toyCrypto true Rx.init (bytewise (wire toyCrypto [pktA, pktB])) = (rx, none) ∧
    rx.rxBuf = [] ∧ rx.dec = ⟨2, none⟩ ∧ rx.decoded = [104, 105, 33] :=
  honest_feed toyCrypto Obfs4.toyCrypto_ok true [pktA, pktB] (by decide)
    (okPkt_wf true _ (by decide)) (by decide) _ (by decide +kernel)

/-! ## 0. the sender's frames carry exactly the written bytes, and every segmentation of them
decodes to exactly those bytes -/

/-- **frames_roundtrip**: for every sequence of `Write(data)` calls with any padding lengths the
    padding policy may choose (`≤ maxPacketPaddingLength`; `padBurst` stays within it:
    `padBurstPads_ok`), in every IAT mode (the grouping of frames into `Conn.Write`s is irrelevant
    to the receiver): no `makePacket` precondition fails, the packets' payloads concatenate to
    exactly the written bytes (padding packets carry none), and for **every** segmentation of the
    concatenated frames the receiver's buffer loop decodes exactly the written bytes, with no
    error, nothing left over, one frame per packet. -/
theorem frames_roundtrip (c : Crypto) (hc : CryptoOK c) (srv : Bool) (ws : List (Bytes × List Nat))
    (hpad : ∀ w ∈ ws, ∀ p ∈ w.2, p ≤ Consts.Obfs4.maxPacketPaddingLength) :
    ∃ pkts, allSome (txAll ws) = some pkts ∧
      pkts.flatMap (payloadOf srv) = (ws.map (·.1)).flatten ∧
      (pkts.length < ctrLimit - 1 → ∀ cs : List Bytes, cs.flatten = wire c pkts →
        ∃ rx, feedAll c srv Rx.init cs = (rx, none) ∧ rx.rxBuf = [] ∧
          rx.dec = ⟨pkts.length, none⟩ ∧ rx.decoded = (ws.map (·.1)).flatten) := by
  obtain ⟨pkts, h1, h2, h3, h4⟩ := txAll_payload srv ws hpad
  refine ⟨pkts, h1, h2, fun hn cs hcs => ?_⟩
  obtain ⟨rx, g1, g2, g3, g4⟩ := honest_feed c hc srv pkts h3 h4 hn cs hcs
  exact ⟨rx, g1, g2, g3, by rw [g4, h2]⟩

/-- the real padding policy meets the hypothesis: whatever the burst length and the sampled
    target (`0 ≤ target ≤ MaximumSegmentLength`) -/
theorem padding_policy_ok (burstLen toPadTo : Nat) (h : toPadTo ≤ Consts.Framing.maximumSegmentLength) :
    ∀ p ∈ padBurstPads burstLen toPadTo, p ≤ Consts.Obfs4.maxPacketPaddingLength :=
  padBurstPads_ok burstLen toPadTo h

/-- non-vacuity: `Write("hi")` padded to 40, then `Write("")` with two padding packets -/
example : ∃ pkts, allSome (txAll [([104, 105], padBurstPads 23 40), ([], [3, 0])]) = some pkts ∧
    pkts.flatMap (payloadOf true) = [[104, 105], []].flatten := by
  obtain ⟨pkts, h1, h2, _⟩ := frames_roundtrip toyCrypto Obfs4.toyCrypto_ok true
    [([104, 105], padBurstPads 23 40), ([], [3, 0])] (by decide)
  exact ⟨pkts, h1, h2⟩

/-- the padding lengths in that example are what `padBurst` computes: tail 23, target 40 ⇒ 17
    bytes to add, which is less than a frame header ⇒ a maximum-size padding packet plus one with
    17 bytes of padding (the burst then ends 40 bytes into a segment) -/
example : padBurstPads 23 40 = [Consts.Obfs4.maxPacketPayloadLength, 17] := by decide

/-! ## 3. no stall -/

/-- **`Read` blocks only when nothing received is left to decode**: if `Read`, entered in a
    settled state, reports "blocked" (the network has nothing to offer), then every network
    result was plain data, all of it has been run through the decoder without error
    (`feedAll`), nothing decoded is being held back, and the decoder needs more input before
    its next phase can fire (`Settled`): no completely received frame is waiting. -/
theorem no_stall (c : Crypto) (srv : Bool) (n : Nat) (rx rx' : Rx) (evs : List NetEv)
    (hs : Settled c srv rx) (h : read c srv n rx evs = .blocked rx') :
    (∀ e ∈ evs, ∃ ch, e = .data ch) ∧ rx'.decoded = [] ∧ Settled c srv rx' ∧
      feedAll c srv rx (evs.map NetEv.chunk) = (rx', none) := by
  obtain ⟨h1, h2, h3⟩ := read_blocked_feed c srv n rx rx' evs h
  exact ⟨h1, h2, feedAll_settled c srv rx _ rx' hs h3, h3⟩

/-- what `Settled` excludes: a completely received honest frame at the decoder's position -/
theorem settled_no_complete_frame (c : Crypto) (hc : CryptoOK c) (srv : Bool) (rx : Rx) (k : Nat)
    (pkt rest : Bytes) (hd : rx.dec = ⟨k, none⟩) (hk : (k + 1) % ctrLimit ≠ 0)
    (hp : pkt.length ≤ Consts.Framing.maximumFramePayloadLength)
    (hb : rx.rxBuf = frameOf c k pkt ++ rest) : ¬ Settled c srv rx :=
  Obfs4.settled_no_complete_frame c hc srv rx k pkt rest hd hk hp hb

/-- non-vacuity: frame A and the first 10 bytes of frame B have arrived and A's payload has
    been read; the next `Read` blocks -/
example : ∃ rx rx', rx.decoded = [] ∧ rx.dec.k = 1 ∧ Settled toyCrypto true rx ∧
    read toyCrypto true 8 rx [.data [0, 0, 0, 0], .data [0, 0]] = .blocked rx' ∧ rx'.rxBuf.length = 14 :=
  ⟨{ (feedAll toyCrypto true Rx.init [(wire toyCrypto [pktA, pktB]).take 33]).1 with decoded := [] },
    _, rfl, by decide +kernel, by decide +kernel, rfl, by decide +kernel⟩

example : ¬ Settled toyCrypto true { Rx.init with rxBuf := frameOf toyCrypto 0 pktA ++ [1, 2, 3] } :=
  settled_no_complete_frame toyCrypto Obfs4.toyCrypto_ok true _ 0 pktA [1, 2, 3] rfl (by decide) (by decide) rfl

/-! ## 4. data arriving in the same segment as the handshake (defect F1 and its repair) -/

/-- after the repaired client handshake the receive side is settled (so `no_stall` applies
    from the first `Read` on) -/
theorem client_start_settled (c : Crypto) (surplus : Bytes) (rx : Rx)
    (h : clientStart c true surplus = (rx, none)) : Settled c false rx :=
  clientStart_settled c surplus rx h

/-- the repaired client start state is what one network read of `surplus` into a fresh receive
    side produces -/
theorem clientStart_eq_feed (c : Crypto) (surplus : Bytes) :
    clientStart c true surplus = readPackets c false Rx.init (.data surplus) ∧
    ∀ rx, clientStart c true surplus = (rx, none) → feedAll c false Rx.init [surplus] = (rx, none) :=
  ⟨clientStart_eq_readPackets c surplus, clientStart_eq_feedAll c surplus⟩

/-- **F1 on the unchanged tree**: a complete frame with the payload `"hi"` arrived together with
    the handshake response; the first `Read` blocks although the frame sits in `receiveBuffer`. -/
theorem no_stall_counterexample :
    ∃ (surplus : Bytes) (n : Nat) (rx' : Rx) (pkt : Bytes),
      read toyCrypto false n (clientStart toyCrypto false surplus).1 [] = .blocked rx' ∧
      ¬ Settled toyCrypto false rx' ∧ rx'.rxBuf = frameOf toyCrypto 0 pkt ∧
      payloadOf false pkt = [104, 105] :=
  ⟨wire toyCrypto [pktA], 8, { Rx.init with rxBuf := wire toyCrypto [pktA] }, pktA,
    by decide +kernel, by decide +kernel, by decide +kernel, by decide +kernel⟩

/-- the same input after the repair: the payload is delivered by the first `Read` -/
example : (clientStart toyCrypto true (wire toyCrypto [pktA])).2 = none ∧
    read toyCrypto false 8 (clientStart toyCrypto true (wire toyCrypto [pktA])).1 []
      = .ret { Rx.init with dec := ⟨1, none⟩ } [104, 105] none [] := by decide +kernel

/-! ## 5. exact delivery -/

/-- **The honest stream under any segmentation and any `Read` sizes (0 included)**: no `Read`
    reports an error, what has been delivered is an initial part of the written bytes, and a
    session that ended blocked (it asked for more than the network had) has delivered *all*
    written bytes and holds nothing back. -/
theorem delivers_exactly (c : Crypto) (hc : CryptoOK c) (srv : Bool) (pkts : List Bytes)
    (hp : ∀ p ∈ pkts, p.length ≤ Consts.Framing.maximumFramePayloadLength)
    (hwf : ∀ p ∈ pkts, ∀ e, parsePacket srv p ≠ .bad e)
    (hn : pkts.length < ctrLimit - 1) (cs : List Bytes) (hcs : cs.flatten = wire c pkts)
    (ns : List Nat) :
    let r := session c srv ns Rx.init (cs.map NetEv.data)
    r.2.1 = [] ∧ r.1 <+: pkts.flatMap (payloadOf srv) ∧
      (r.2.2.2 = true → r.1 = pkts.flatMap (payloadOf srv) ∧ r.2.2.1.rxBuf = []) := by
  have hH := honest_runs c hc srv pkts 0 hp hwf (by simpa using hn)
  rw [show encodeAll c 0 pkts = Rx.init.rxBuf ++ cs.flatten from hcs.symm] at hH
  obtain ⟨d, rxf, bl, hse, hpre, hbl⟩ :=
    session_clean c srv ns Rx.init cs _ _ (settled_init c srv) hH (quiescent_empty c srv _)
  rw [decodedOf_honestOuts] at hpre hbl
  intro r
  rw [show r = (d, [], rxf, bl) from hse]
  exact ⟨rfl, (List.prefix_append d rxf.decoded).trans hpre, fun h => ⟨(hbl h).1, (hbl h).2.1⟩⟩

/-- **every byte written becomes readable without further traffic**: with enough non-empty
    `Read`s (one more than there are bytes) the session over the honest stream ends blocked,
    i.e. (by `delivers_exactly`) after delivering everything. -/
theorem delivers_all (c : Crypto) (hc : CryptoOK c) (srv : Bool) (pkts : List Bytes)
    (hp : ∀ p ∈ pkts, p.length ≤ Consts.Framing.maximumFramePayloadLength)
    (hwf : ∀ p ∈ pkts, ∀ e, parsePacket srv p ≠ .bad e)
    (hn : pkts.length < ctrLimit - 1) (cs : List Bytes) (hcs : cs.flatten = wire c pkts)
    (ns : List Nat) (hns : ∀ n ∈ ns, 0 < n) (hlen : (pkts.flatMap (payloadOf srv)).length < ns.length) :
    let r := session c srv ns Rx.init (cs.map NetEv.data)
    r.2.2.2 = true ∧ r.1 = pkts.flatMap (payloadOf srv) ∧ r.2.1 = [] ∧ r.2.2.1.rxBuf = [] := by
  have h := delivers_exactly c hc srv pkts hp hwf hn cs hcs ns
  intro r
  obtain ⟨h1, h2, h3⟩ : r.2.1 = [] ∧ r.1 <+: pkts.flatMap (payloadOf srv) ∧
      (r.2.2.2 = true → r.1 = pkts.flatMap (payloadOf srv) ∧ r.2.2.1.rxBuf = []) := h
  have hb : r.2.2.2 = true :=
    session_ends_blocked c srv ns hns _ _ r.1 r.2.2.1 r.2.2.2 (by rw [← h1])
      (Nat.lt_of_le_of_lt h2.length_le hlen)
  exact ⟨hb, (h3 hb).1, h1, (h3 hb).2⟩

/-- non-vacuity: the two-packet stream in 1-byte segments, `Read`s of sizes 1, 1, 5, 5 -/
example :
    let r := session toyCrypto true [1, 1, 5, 5] Rx.init ((bytewise (wire toyCrypto [pktA, pktB])).map NetEv.data)
    r.2.2.2 = true ∧ r.1 = [104, 105, 33] ∧ r.2.1 = [] ∧ r.2.2.1.rxBuf = [] :=
  delivers_all toyCrypto Obfs4.toyCrypto_ok true [pktA, pktB] (by decide)
    (okPkt_wf true _ (by decide)) (by decide) (bytewise (wire toyCrypto [pktA, pktB])) (by decide +kernel)
    [1, 1, 5, 5] (by decide) (by decide +kernel)

/-- a zero-size `Read` in between changes nothing; too few `Read`s deliver a proper prefix -/
example :
    (session toyCrypto true [1, 0, 1, 5, 5] Rx.init ((bytewise (wire toyCrypto [pktA, pktB])).map NetEv.data)).1
      = [104, 105, 33] ∧
    (session toyCrypto true [1, 0] Rx.init ((bytewise (wire toyCrypto [pktA, pktB])).map NetEv.data)).1 = [104] := by
  decide +kernel

/-- **5b. the client whose handshake read picked up `surplus`** (repaired tree): the handshake
    reports no error, and the session from the state it leaves satisfies the same three facts —
    in particular data that arrived with the handshake response is delivered without further
    traffic (`cs = []`: the first blocked `Read` comes after everything has been delivered). -/
theorem delivers_exactly_client (c : Crypto) (hc : CryptoOK c) (pkts : List Bytes)
    (hp : ∀ p ∈ pkts, p.length ≤ Consts.Framing.maximumFramePayloadLength)
    (hwf : ∀ p ∈ pkts, ∀ e, parsePacket false p ≠ .bad e)
    (hn : pkts.length < ctrLimit - 1) (surplus : Bytes) (cs : List Bytes)
    (hcs : surplus ++ cs.flatten = wire c pkts) (ns : List Nat) :
    (clientStart c true surplus).2 = none ∧
    let r := session c false ns (clientStart c true surplus).1 (cs.map NetEv.data)
    r.2.1 = [] ∧ r.1 <+: pkts.flatMap (payloadOf false) ∧
      (r.2.2.2 = true → r.1 = pkts.flatMap (payloadOf false) ∧ r.2.2.1.rxBuf = []) := by
  obtain ⟨rx1, d, rxf, bl, hcl, hse, hpre, hbl⟩ := client_clean c hc pkts hp hwf hn surplus cs hcs ns
  rw [hcl]
  refine ⟨rfl, ?_⟩
  intro r
  rw [show r = (d, [], rxf, bl) from hse]
  exact ⟨rfl, (List.prefix_append d rxf.decoded).trans hpre, fun h => ⟨(hbl h).1, (hbl h).2.1⟩⟩

/-- non-vacuity: frame A and 10 bytes of frame B arrive with the handshake response, the rest
    byte-wise afterwards -/
example :
    let w := wire toyCrypto [pktA, pktB]
    let r := session toyCrypto false [2, 2] (clientStart toyCrypto true (w.take 33)).1 ((bytewise (w.drop 33)).map NetEv.data)
    w.take 33 ++ (bytewise (w.drop 33)).flatten = w ∧ r.1 = [104, 105, 33] ∧ r.2.2.2 = false := by
  decide +kernel

/-- … and with enough non-empty `Read`s that client session delivers everything — when
    `cs = []`, everything that arrived with the handshake response, with no further traffic. -/
theorem delivers_all_client (c : Crypto) (hc : CryptoOK c) (pkts : List Bytes)
    (hp : ∀ p ∈ pkts, p.length ≤ Consts.Framing.maximumFramePayloadLength)
    (hwf : ∀ p ∈ pkts, ∀ e, parsePacket false p ≠ .bad e)
    (hn : pkts.length < ctrLimit - 1) (surplus : Bytes) (cs : List Bytes)
    (hcs : surplus ++ cs.flatten = wire c pkts) (ns : List Nat) (hns : ∀ n ∈ ns, 0 < n)
    (hlen : (pkts.flatMap (payloadOf false)).length < ns.length) :
    (clientStart c true surplus).2 = none ∧
    let r := session c false ns (clientStart c true surplus).1 (cs.map NetEv.data)
    r.2.2.2 = true ∧ r.1 = pkts.flatMap (payloadOf false) ∧ r.2.1 = [] ∧ r.2.2.1.rxBuf = [] := by
  obtain ⟨h0, h⟩ := delivers_exactly_client c hc pkts hp hwf hn surplus cs hcs ns
  refine ⟨h0, ?_⟩
  intro r
  obtain ⟨h1, h2, h3⟩ : r.2.1 = [] ∧ r.1 <+: pkts.flatMap (payloadOf false) ∧
      (r.2.2.2 = true → r.1 = pkts.flatMap (payloadOf false) ∧ r.2.2.1.rxBuf = []) := h
  have hb : r.2.2.2 = true :=
    session_ends_blocked c false ns hns _ _ r.1 r.2.2.1 r.2.2.2 (by rw [← h1])
      (Nat.lt_of_le_of_lt h2.length_le hlen)
  exact ⟨hb, (h3 hb).1, h1, (h3 hb).2⟩

/-- non-vacuity: both frames arrive with the handshake response, nothing afterwards -/
example :
    (clientStart toyCrypto true (wire toyCrypto [pktA, pktB])).2 = none ∧
    let r := session toyCrypto false [2, 2, 2, 2] (clientStart toyCrypto true (wire toyCrypto [pktA, pktB])).1
      (([] : List Bytes).map NetEv.data)
    r.2.2.2 = true ∧ r.1 = [104, 105, 33] ∧ r.2.1 = [] ∧ r.2.2.1.rxBuf = [] :=
  delivers_all_client toyCrypto Obfs4.toyCrypto_ok [pktA, pktB] (by decide)
    (okPkt_wf false _ (by decide)) (by decide) (wire toyCrypto [pktA, pktB]) [] (by decide +kernel)
    [2, 2, 2, 2] (by decide) (by decide +kernel)

/-! ## 6. chunk invariance of whole sessions, arbitrary bytes -/

/-- **Complete sessions over the same byte stream agree**, whatever the segmentation and the
    `Read` sizes: two sessions (stopping at the first reported error) that both ran to the end
    — blocked, or an error was reported — have delivered-or-hold the same bytes and report the
    same error.  (Bytes decoded before the error that did not fit the last `Read`'s buffer stay
    in `decoded`.) -/
theorem chunk_invariance (c : Crypto) (srv : Bool) (rx0 : Rx) (hs : Settled c srv rx0)
    (cs cs' : List Bytes) (h : cs.flatten = cs'.flatten) (ns ns' : List Nat) :
    let r := sessionUntilErr c srv ns rx0 (cs.map NetEv.data)
    let r' := sessionUntilErr c srv ns' rx0 (cs'.map NetEv.data)
    (r.2.2.2 = true ∨ r.2.1.isSome) → (r'.2.2.2 = true ∨ r'.2.1.isSome) →
      r.1 ++ r.2.2.1.decoded = r'.1 ++ r'.2.2.1.decoded ∧ r.2.1 = r'.2.1 := by
  intro r r' hc1 hc2
  obtain ⟨h1, h2, _⟩ := session_chunk_invariant c srv rx0 hs cs cs' h ns ns'
    r.1 r'.1 r.2.1 r'.2.1 r.2.2.1 r'.2.2.1 r.2.2.2 r'.2.2.2 rfl rfl hc1 hc2
  exact ⟨h1, h2⟩

example :
    let w := wire toyCrypto [pktA] ++ [206, 102, 9, 9, 9, 9, 9, 9, 9, 9, 9, 9, 9, 9, 9, 9, 9, 9, 9, 9, 9, 9, 9, 9]
    let r := sessionUntilErr toyCrypto true [1, 1, 1] Rx.init ((bytewise w).map NetEv.data)
    let r' := sessionUntilErr toyCrypto true [1] Rx.init ([w].map NetEv.data)
    r.2.1 = some (.frame .tagMismatch) ∧ r'.2.1 = some (.frame .tagMismatch) ∧
    r.1 = [104, 105] ∧ r'.1 = [104] ∧ r'.2.2.1.decoded = [105] := by decide +kernel

/-- **… also when the network stream ends with a failure** (EOF, reset, timeout, possibly
    together with final bytes): two sessions over the same bytes that ran until an error was
    reported have delivered-or-hold the same bytes, and each reports either the decoder's
    verdict on the stream (`eN`, the same for both: the first frame/packet error, if any) or
    its network failure — which of the two depends on whether the bad frame was processed in a
    network read of its own or in the one that returned the failure (`readPackets` reports the
    network error in that case, after decoding what came with it). -/
theorem chunk_invariance_fail (c : Crypto) (srv : Bool) (rx0 : Rx) (hs : Settled c srv rx0)
    (cs cs' : List Bytes) (ch ch' : Bytes) (cls cls' : String)
    (h : cs.flatten ++ ch = cs'.flatten ++ ch') (ns ns' : List Nat) (e e' : RxErr) :
    let r := sessionUntilErr c srv ns rx0 (cs.map NetEv.data ++ [.fail ch cls])
    let r' := sessionUntilErr c srv ns' rx0 (cs'.map NetEv.data ++ [.fail ch' cls'])
    r.2.1 = some e → r'.2.1 = some e' →
      r.1 ++ r.2.2.1.decoded = r'.1 ++ r'.2.2.1.decoded ∧
      ∃ eN : Option RxErr, (eN = some e ∨ e = .net cls) ∧ (eN = some e' ∨ e' = .net cls') := by
  intro r r' he he'
  obtain ⟨h1, _, _, h4⟩ := session_fail_invariant c srv rx0 hs cs cs' ch ch' cls cls' h ns ns'
    r.1 r'.1 e e' r.2.2.1 r'.2.2.1 r.2.2.2 r'.2.2.2 (by rw [← he]) (by rw [← he'])
  exact ⟨h1, h4⟩

/-- non-vacuity: the corrupted stream followed by EOF; byte-wise with a separate EOF the tag
    mismatch is reported, in one piece together with the EOF the EOF is; same bytes either way -/
example :
    let w := wire toyCrypto [pktA] ++ [206, 102, 9, 9, 9, 9, 9, 9, 9, 9, 9, 9, 9, 9, 9, 9, 9, 9, 9, 9, 9, 9, 9, 9]
    let r := sessionUntilErr toyCrypto true [8, 8] Rx.init ((bytewise w).map NetEv.data ++ [.fail [] "EOF"])
    let r' := sessionUntilErr toyCrypto true [8] Rx.init (([] : List Bytes).map NetEv.data ++ [.fail w "EOF"])
    r.2.1 = some (.frame .tagMismatch) ∧ r'.2.1 = some (.net "EOF") ∧
    r.1 = [104, 105] ∧ r'.1 = [104, 105] ∧ r.2.2.1.decoded = [] ∧ r'.2.2.1.decoded = [] := by decide +kernel

/-! ## 7. the two directions of one endpoint do not interfere -/

/-- **`Read` and `Write` commute**: the reader touches only `rx`, the writer only the encoder's
    frame index; either order of a `Read` and a `Write` gives the same endpoint state, the same
    bytes read and the same wire bytes written (and fails in the same cases). -/
theorem directions_independent (cr cw : Crypto) (srv : Bool) (ep : Endpoint) (n : Nat)
    (evs : List NetEv) (data : Bytes) (pads : List Nat) :
    ((ep.read cr srv n evs).bind fun r => (r.1.write cw data pads).map fun w => (w.1, r.2, w.2))
      = ((ep.write cw data pads).bind fun w => (w.1.read cr srv n evs).map fun r => (r.1, r.2, w.2)) ∧
    (∀ ep' w, ep.write cw data pads = some (ep', w) → ep'.rx = ep.rx) ∧
    (∀ ep' bytes err rest, ep.read cr srv n evs = some (ep', bytes, err, rest) → ep'.txK = ep.txK) :=
  ⟨read_write_commute cr cw srv ep n evs data pads,
   fun ep' w h => write_keeps_rx cw ep ep' data pads w h,
   fun ep' bytes err rest h => read_keeps_txK cr srv ep ep' n evs rest bytes err h⟩

example :
    (((Endpoint.mk Rx.init 0).read toyCrypto true 8 [.data (wire toyCrypto [pktA])]).bind
      (fun r => (r.1.write toyCrypto [1, 2, 3] [4]).map fun w => (w.1, r.2, w.2))).map
      (fun x => (x.1.txK, x.1.rx.dec.k, x.2.1.1, x.2.2.length)) = some (2, 1, [104, 105], 49) := by
  have h1 : chop Consts.Obfs4.maxPacketPayloadLength [1, 2, 3] = [[1, 2, 3]] := by
    rw [chop_cons _ _ (by decide) (by decide)]
    rw [show ([1, 2, 3] : Bytes).drop Consts.Obfs4.maxPacketPayloadLength = [] by decide, chop_nil]
    decide
  simp only [Endpoint.write, txPackets, h1]
  decide +kernel

/-! ## 8. the toy link crypto of the examples satisfies the crypto hypothesis -/

/-- **the Go reader and writer share no connection state but the underlying conn and the
    (mutex-protected) distributions**: the receiver fields `obfs4Conn.Read` touches (transitively,
    through `readPackets`/`processReceiveBuffer`) and those `obfs4Conn.Write` touches (through
    `makePacket`/`padBurst`) are extracted from the Go source on every run
    (`O4/Generated/Facts/Obfs4.lean`, go/ast); their intersection is `Conn`, `lenDist`, `iatDist`.
    So one reader goroutine and one writer goroutine per endpoint interleave without touching
    each other's framing state — the model's `Endpoint` (reader: `rx`, writer: `txK`) is faithful
    in keeping them apart.  A change that makes `Write` touch `receiveBuffer`/`decoder` (or `Read`
    the `encoder`) breaks this proof. -/
theorem reader_writer_state_disjoint :
    ∀ f, f ∈ O4.Facts.Obfs4.obfs4Conn_Read_fields → f ∈ O4.Facts.Obfs4.obfs4Conn_Write_fields →
      f ∈ ["Conn", "lenDist", "iatDist"] := by decide

/-- … and the fields that carry a direction's framing state are private to their side -/
theorem framing_state_private :
    "encoder" ∉ O4.Facts.Obfs4.obfs4Conn_Read_fields ∧
    "decoder" ∉ O4.Facts.Obfs4.obfs4Conn_Write_fields ∧
    "receiveBuffer" ∉ O4.Facts.Obfs4.obfs4Conn_Write_fields ∧
    "receiveDecodedBuffer" ∉ O4.Facts.Obfs4.obfs4Conn_Write_fields ∧
    "decoder" ∈ O4.Facts.Obfs4.obfs4Conn_Read_fields ∧
    "encoder" ∈ O4.Facts.Obfs4.obfs4Conn_Write_fields := by decide

theorem toyCrypto_ok : CryptoOK toyCrypto := Obfs4.toyCrypto_ok

end C01
