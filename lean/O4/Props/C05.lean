import O4.Lemmas.Obfs4Tx
import O4.Lemmas.Obfs4Rx
import O4.Generated.Facts.Obfs4
import O4.Model.Ntor
import O4.Lemmas.Obfs4Tamper
import O4.Generated.Facts.Framing
import O4.Generated.Facts.Drbg
import O4.Generated.Facts.Ntor
/-!
# C05 — the obfs4 reader hands the application only a prefix of what the peer sealed

Property theorems only (model: `O4/Model/Framing.lean`, `O4/Model/Obfs4Conn.lean`,
`O4/Model/Obfs4Session.lean`; helper lemmas: `O4/Lemmas/Framing.lean`, `O4/Lemmas/Obfs4Rx.lean`,
`O4/Lemmas/Obfs4Tx.lean`).

The link crypto of the direction is abstract; the only hypothesis is `BoxAuth c (sentFn sent)`
(INT-CTXT idealisation: a box opens under nonce `n` only if it is the box the honest peer sealed
under nonce `n`, and then it opens to that peer's `n`-th packet).  Everything else is universally
quantified: the bytes the network delivers, their chunking, network errors, the `Read` buffer
sizes, and whether the caller keeps reading after an error.
-/
set_option autoImplicit false
namespace C05
open O4 O4.Obfs4 O4.Framing O4.Consts.Obfs4

/-! ## prefix property -/

/-- **prefix, from any state satisfying the invariant**: `d0` is what was delivered before,
    `rx0` the receive-side state (`RxInv`: `d0 ++ rx0.decoded` is the payload of the first
    `rx0.dec.k` sealed packets; `rx0.rxBuf` is arbitrary).  Whatever arrives, with any read
    sizes, even if the caller keeps reading after errors: everything delivered is a prefix of the
    payload of the packets the honest peer sealed. -/
theorem prefix_from (c : Crypto) (sent : List Bytes) (ha : BoxAuth c (sentFn sent)) (srv : Bool)
    (d0 : Bytes) (rx0 : Rx) (h0 : RxInv srv sent d0 rx0) (ns : List Nat) (evs : List NetEv) :
    d0 ++ (session c srv ns rx0 evs).1 <+: sent.flatMap (payloadOf srv) :=
  (session_inv c sent ha srv ns d0 rx0 evs h0).isPrefix

/-- **prefix** (named `prefix_of_sent`: `prefix` is a Lean keyword), from the initial state. -/
theorem prefix_of_sent (c : Crypto) (sent : List Bytes) (ha : BoxAuth c (sentFn sent)) (srv : Bool)
    (ns : List Nat) (evs : List NetEv) :
    (session c srv ns Rx.init evs).1 <+: sent.flatMap (payloadOf srv) := by
  simpa using prefix_from c sent ha srv [] Rx.init (RxInv.init srv sent) ns evs

/-- the delivered stream ends on a frame boundary of the sealed stream up to what still waits
    in `receiveDecodedBuffer`: delivered ++ decoded-but-unread = payload of the first `k` sealed
    packets, `k` the number of frames the decoder accepted. -/
theorem delivered_whole_frames (c : Crypto) (sent : List Bytes) (ha : BoxAuth c (sentFn sent))
    (srv : Bool) (ns : List Nat) (evs : List NetEv) :
    let r := session c srv ns Rx.init evs
    r.2.2.1.dec.k ≤ sent.length ∧
      r.1 ++ r.2.2.1.decoded = (sent.take r.2.2.1.dec.k).flatMap (payloadOf srv) := by
  simpa [RxInv] using session_inv c sent ha srv ns [] Rx.init evs (RxInv.init srv sent)

/-- the same for a caller that stops at the first error (the relay's copy loop) -/
theorem prefix_until_err (c : Crypto) (sent : List Bytes) (ha : BoxAuth c (sentFn sent))
    (srv : Bool) (d0 : Bytes) (rx0 : Rx) (h0 : RxInv srv sent d0 rx0) (ns : List Nat)
    (evs : List NetEv) :
    d0 ++ (sessionUntilErr c srv ns rx0 evs).1 <+: sent.flatMap (payloadOf srv) :=
  (sessionUntilErr_inv c sent ha srv ns d0 rx0 evs h0).isPrefix

/-- the client's receive side after the handshake satisfies the invariant whatever bytes followed
    the server's handshake response (`surplus` arbitrary), on the unchanged tree
    (`fixed = false`) and after the F1 repair (`fixed = true`) -/
theorem clientStart_inv (c : Crypto) (sent : List Bytes) (ha : BoxAuth c (sentFn sent))
    (fixed : Bool) (surplus : Bytes) :
    RxInv false sent [] (clientStart c fixed surplus).1 :=
  O4.Obfs4.clientStart_inv c sent ha fixed surplus

/-- **prefix, client**: with arbitrary handshake surplus in the receive buffer -/
theorem prefix_client (c : Crypto) (sent : List Bytes) (ha : BoxAuth c (sentFn sent))
    (fixed : Bool) (surplus : Bytes) (ns : List Nat) (evs : List NetEv) :
    (session c false ns (clientStart c fixed surplus).1 evs).1 <+: sent.flatMap (payloadOf false) := by
  simpa using prefix_from c sent ha false [] _ (clientStart_inv c sent ha fixed surplus) ns evs

/-! ## the first bad frame is an error and nothing of it is delivered -/

/-- **first bad frame errors**: the decoder is in its box phase (`pending = some (len, inv)`),
    `len` bytes are buffered, and they are not the honest box of nonce `k+1` (or the length field
    was out of range, `inv`).  Then the buffer loop returns `tagMismatch` at once, consuming
    exactly those `len` bytes; `decoded`, `seeds`, the frame counter and the pending length are
    untouched — so at most the payload of earlier frames is ever delivered from that call. -/
theorem first_bad_frame_errors (c : Crypto) (sent : List Bytes) (ha : BoxAuth c (sentFn sent))
    (srv : Bool) (rx : Rx) (len : Nat) (inv : Bool)
    (hp : rx.dec.pending = some (len, inv)) (hl : len ≤ rx.rxBuf.length)
    (hbad : inv = true ∨ ∀ pkt, sentFn sent (rx.dec.k + 1) = some pkt →
      rx.rxBuf.take len ≠ c.sealB (rx.dec.k + 1) pkt)
    (fuel : Nat) (hf : 0 < fuel) :
    processBuffer c srv fuel rx
      = ({ rx with rxBuf := rx.rxBuf.drop len }, some (.frame .tagMismatch)) :=
  bad_frame_stops c sent ha srv rx len inv hp hl hbad fuel hf

/-- **an out-of-range length field errors**: in the length phase with a deobfuscated length
    outside `[minFrameLength, maxFrameLength]`, as soon as the random replacement length
    `c.rnd k` worth of bytes is buffered the buffer loop returns `tagMismatch`, whatever the bytes
    are (no crypto hypothesis); `decoded`, `seeds` and the frame counter are untouched. -/
theorem bad_length_errors (c : Crypto) (srv : Bool) (rx : Rx)
    (hp : rx.dec.pending = none) (h2 : Consts.Framing.lengthLength ≤ rx.rxBuf.length)
    (hk : (rx.dec.k + 1) % ctrLimit ≠ 0)
    (hlen : Consts.Framing.maxFrameLength < (be16 rx.rxBuf ^^^ (c.mask rx.dec.k % 65536)) ∨
      (be16 rx.rxBuf ^^^ (c.mask rx.dec.k % 65536)) < Consts.Framing.minFrameLength)
    (hr : c.rnd rx.dec.k + Consts.Framing.lengthLength ≤ rx.rxBuf.length)
    (fuel : Nat) (hf : 2 ≤ fuel) :
    (processBuffer c srv fuel rx).2 = some (.frame .tagMismatch) ∧
    (processBuffer c srv fuel rx).1.decoded = rx.decoded ∧
    (processBuffer c srv fuel rx).1.seeds = rx.seeds ∧
    (processBuffer c srv fuel rx).1.dec = { rx.dec with pending := some (c.rnd rx.dec.k, true) } := by
  rw [bad_length_stops c srv rx hp h2 hk hlen hr fuel hf]
  exact ⟨rfl, rfl, rfl, rfl⟩

/-- **the error is sticky**: after a bad frame the decoder state is what it was — same frame
    counter, same pending length — so the next `len` bytes are again checked against the very
    same nonce `k+1`; nothing was decoded or adopted. -/
theorem error_is_sticky (c : Crypto) (sent : List Bytes) (ha : BoxAuth c (sentFn sent))
    (srv : Bool) (rx : Rx) (len : Nat) (inv : Bool)
    (hp : rx.dec.pending = some (len, inv)) (hl : len ≤ rx.rxBuf.length)
    (hbad : inv = true ∨ ∀ pkt, sentFn sent (rx.dec.k + 1) = some pkt →
      rx.rxBuf.take len ≠ c.sealB (rx.dec.k + 1) pkt)
    (fuel : Nat) (hf : 0 < fuel) :
    (processBuffer c srv fuel rx).1.dec = rx.dec ∧
    (processBuffer c srv fuel rx).1.decoded = rx.decoded ∧
    (processBuffer c srv fuel rx).1.seeds = rx.seeds :=
  error_sticky c sent ha srv rx len inv hp hl hbad fuel hf

/-- after an out-of-range length the decoder is poisoned for good: whatever arrives later, no
    buffer loop decodes anything any more, each either waits for more bytes or reports
    `tagMismatch` (no crypto hypothesis) -/
theorem invalid_length_is_final (c : Crypto) (srv : Bool) (rx : Rx) (len : Nat)
    (hp : rx.dec.pending = some (len, true)) (fuel : Nat) :
    (processBuffer c srv fuel rx).1.dec = rx.dec ∧
    (processBuffer c srv fuel rx).1.decoded = rx.decoded ∧
    ((processBuffer c srv fuel rx).2 = none ∨
      (processBuffer c srv fuel rx).2 = some (.frame .tagMismatch)) :=
  invalid_length_never_delivers c srv rx len hp fuel

/-! ## the packet checks are total -/

/-- **packet checks total**: whatever an authenticated frame contains, `parsePacket` either
    rejects it with the matching error or yields a payload that is a sub-range of the packet
    body: too short → `invalidPacketLength`; length field beyond the body → `invalidPayloadLength`;
    otherwise a payload/seed is `body.take n` with `n ≤ |body|`. -/
theorem packet_checks_total (srv : Bool) (pkt : Bytes) :
    (pkt.length < packetOverhead → parsePacket srv pkt = .bad (.invalidPacketLength pkt.length)) ∧
    (packetOverhead ≤ pkt.length → be16 (pkt.drop 1) > pkt.length - packetOverhead →
      parsePacket srv pkt = .bad (.invalidPayloadLength (be16 (pkt.drop 1)))) ∧
    (∀ b, parsePacket srv pkt = .payload b ∨ parsePacket srv pkt = .seed b →
      ∃ n, n ≤ pkt.length - packetOverhead ∧ b = (pkt.drop 3).take n ∧ b.length = n) :=
  ⟨parsePacket_short srv pkt, parsePacket_overlong srv pkt, fun b => parsePacket_total srv pkt b⟩

/-- a frame whose packet fails the checks contributes nothing to the delivered stream -/
theorem bad_packet_no_payload (srv : Bool) (pkt : Bytes) (e : RxErr)
    (h : parsePacket srv pkt = .bad e) : payloadOf srv pkt = [] := by
  simp [payloadOf, h]

/-! ## non-vacuity -/

/-- two sealed packets: payload `[1,2]`, then payload `[3]` with one byte of padding -/
def exSent : List Bytes := [rawPacket packetTypePayload [1, 2] 0, rawPacket packetTypePayload [3] 1]

/-- the honest wire stream (2 × 23 bytes) with the last byte of the second box overwritten -/
def exTampered : Bytes := (wire (idealCrypto exSent) exSent).set 45 0xFF

/-- the hypothesis `BoxAuth` is satisfiable, by an executable crypto instance -/
example : BoxAuth (idealCrypto exSent) (sentFn exSent) := idealCrypto_boxAuth exSent

/-- the packets are what `makePacket` builds, and the sealed payload is `[1,2,3]` -/
example : allSome [makePacket packetTypePayload [1, 2] 0, makePacket packetTypePayload [3] 1]
    = some exSent ∧ exSent.flatMap (payloadOf true) = [1, 2, 3] := by decide

/-- honest stream, 1-byte reads then a large one, awkward chunking: everything is delivered -/
example : (session (idealCrypto exSent) true [1, 1, 10, 10] Rx.init
      [.data ((wire (idealCrypto exSent) exSent).take 30),
       .data ((wire (idealCrypto exSent) exSent).drop 30)]).1 = [1, 2, 3] := by decide +kernel

/-- tampered stream: a **strict** prefix `[1,2]` of `[1,2,3]` is delivered and the tampered frame
    is reported as `tagMismatch`; the decoder still waits at frame 1 (the conclusion of
    `prefix_of_sent` is not trivially an equality, and `first_bad_frame_errors` fires) -/
example : (session (idealCrypto exSent) true [10, 10] Rx.init [.data exTampered]).1 = [1, 2] ∧
    (session (idealCrypto exSent) true [10, 10] Rx.init [.data exTampered]).2.1
      = [.frame .tagMismatch] ∧
    (session (idealCrypto exSent) true [10, 10] Rx.init [.data exTampered]).2.2.1.dec
      = ⟨1, some (21, false)⟩ := by decide

/-- replaying the box of frame 0 in place of the box of frame 1 (a genuine box of the honest
    sender, under the wrong nonce; length field of frame 1 kept) is rejected too -/
example : (session (idealCrypto exSent) true [10, 10] Rx.init
      [.data ((wire (idealCrypto exSent) exSent).take 25 ++
              ((wire (idealCrypto exSent) exSent).drop 2).take 21)]).2.1
      = [.frame .tagMismatch] := by decide

/-- the state in which `first_bad_frame_errors` / `error_is_sticky` apply: frame 0 accepted,
    length of frame 1 known, the tampered box buffered -/
def exRx : Rx := ⟨⟨1, some (21, false)⟩, exTampered.drop 25, [1, 2], []⟩

example : processBuffer (idealCrypto exSent) true 3 exRx
    = ({ exRx with rxBuf := [] }, some (.frame .tagMismatch)) :=
  first_bad_frame_errors (idealCrypto exSent) exSent (idealCrypto_boxAuth exSent) true exRx 21 false
    rfl (by decide)
    (Or.inr (by
      intro pkt h
      have hp : pkt = rawPacket packetTypePayload [3] 1 := by
        have : sentFn exSent (exRx.dec.k + 1) = some (rawPacket packetTypePayload [3] 1) := by decide
        rw [this] at h; exact (Option.some.inj h).symm
      subst hp
      decide))
    3 (by decide)

/-- `exRx` satisfies the invariant with nothing delivered yet (hypothesis of `prefix_from`) -/
example : RxInv true exSent [] exRx := by
  refine ⟨by decide, ?_⟩
  decide

/-- an out-of-range length field (hypotheses of `bad_length_errors`): 2 garbage bytes whose
    deobfuscated value is 12345 > maxFrameLength, then `rnd 0 = 16` more bytes -/
def exRxLen : Rx := { Rx.init with rxBuf := [0, 0] ++ List.replicate 16 7 }

example : (processBuffer (idealCrypto exSent) true 2 exRxLen).2 = some (.frame .tagMismatch) :=
  (bad_length_errors (idealCrypto exSent) true exRxLen rfl (by decide) (by decide)
    (Or.inl (by decide)) (by decide) 2 (by decide)).1

/-- the client with handshake surplus (here: the complete honest stream arrived with the
    handshake response), both before and after the F1 repair -/
example : (session (idealCrypto exSent) false [10] (clientStart (idealCrypto exSent) true
      (wire (idealCrypto exSent) exSent)).1 []).1 = [1, 2, 3] ∧
    (session (idealCrypto exSent) false [10] (clientStart (idealCrypto exSent) false
      (wire (idealCrypto exSent) exSent)).1 [.data []]).1 = [1, 2, 3] := by decide

/-- packet checks: each of the three outcomes occurs -/
example : parsePacket true [0, 0] = .bad (.invalidPacketLength 2) ∧
    parsePacket true [0, 0, 5, 1] = .bad (.invalidPayloadLength 5) ∧
    parsePacket true [0, 0, 1, 9, 0] = .payload [9] ∧
    parsePacket false (1 :: 0 :: 24 :: List.replicate 24 4) = .seed (List.replicate 24 4) := by
  decide

/-! ## the first damaged frame, for whole streams under any segmentation

Hypothesis `IdealFor c sent` (`Lemmas/Obfs4Tamper.lean`): `BoxAuth c (sentFn sent)` plus the
round trip *for the packets the peer actually sealed* (`CryptoOK`, the round trip for all
packets, contradicts `BoxAuth`).  The stream is the honest one for the first `j` frames
(`j = 0` and `j = sent.length` included) followed by `tail`, whose first frame is completely
received and damaged (`BadFirstFrame`): length field out of range, or not the honest box of
nonce `j+1` — bit flips, deleted / duplicated / reordered / replayed frames, forgeries. -/

/-- **every segmentation**: the buffer loop reports `tagMismatch` with exactly the payload of
    the `j` intact frames decoded and the frame counter at `j`. -/
theorem tampered_stream_feed (c : Crypto) (sent : List Bytes) (hi : IdealFor c sent) (srv : Bool)
    (hp : ∀ p ∈ sent, p.length ≤ Consts.Framing.maximumFramePayloadLength)
    (hn : sent.length < ctrLimit - 1) (j : Nat) (hj : j ≤ sent.length)
    (hwf : ∀ p ∈ sent.take j, ∀ e, parsePacket srv p ≠ .bad e)
    (tail : Bytes) (hbad : BadFirstFrame c sent j tail)
    (cs : List Bytes) (hcs : cs.flatten = encodeAll c 0 (sent.take j) ++ tail) :
    ∃ rx, feedAll c srv Rx.init cs = (rx, some (.frame .tagMismatch)) ∧ rx.dec.k = j ∧
      rx.decoded = (sent.take j).flatMap (payloadOf srv) := by
  obtain ⟨rx, h1, h2, h3, _⟩ := tampered_feed c sent hi srv hp hn j hj hwf tail hbad cs hcs
  exact ⟨rx, h1, by rw [h2], h3⟩

/-- **every segmentation and every sequence of `Read` sizes** (caller stops at the first error):
    what is delivered is a prefix of the payload of the `j` intact frames; the session never
    ends blocked (the damaged frame is completely received, so the error must surface before
    `Read` could wait for the network again); once the error is reported it is `tagMismatch`
    and delivered ++ still-held bytes are exactly the payload of the `j` intact frames. -/
theorem tampered_stream_session (c : Crypto) (sent : List Bytes) (hi : IdealFor c sent) (srv : Bool)
    (hp : ∀ p ∈ sent, p.length ≤ Consts.Framing.maximumFramePayloadLength)
    (hn : sent.length < ctrLimit - 1) (j : Nat) (hj : j ≤ sent.length)
    (hwf : ∀ p ∈ sent.take j, ∀ e, parsePacket srv p ≠ .bad e)
    (tail : Bytes) (hbad : BadFirstFrame c sent j tail)
    (cs : List Bytes) (hcs : cs.flatten = encodeAll c 0 (sent.take j) ++ tail) (ns : List Nat) :
    let r := sessionUntilErr c srv ns Rx.init (cs.map NetEv.data)
    r.1 <+: (sent.take j).flatMap (payloadOf srv) ∧ r.2.2.2 = false ∧
      ((r.2.2.2 = true ∨ r.2.1.isSome) → r.2.1 = some (.frame .tagMismatch) ∧
        r.1 ++ r.2.2.1.decoded = (sent.take j).flatMap (payloadOf srv)) := by
  intro r
  obtain ⟨h1, h2, h3, h4⟩ := tampered_session c sent hi srv hp hn j hj hwf tail hbad cs hcs ns
    r.1 r.2.1 r.2.2.1 r.2.2.2 rfl
  refine ⟨(List.prefix_append _ _).trans h1, h2, fun hc => ?_⟩
  have hs : r.2.1.isSome := by
    rcases hc with hc | hc
    · rw [h2] at hc; cases hc
    · exact hc
  refine ⟨?_, (h4 hs).1⟩
  rcases h3 with h3 | h3
  · rw [h3] at hs; cases hs
  · exact h3

/-- the hypothesis `IdealFor` is satisfiable, by the executable crypto instance of the examples -/
example : IdealFor (idealCrypto exSent) exSent := idealCrypto_idealFor exSent

/-- `exTampered` = frame 0 intact (23 bytes), then frame 1 with a flipped byte in its box -/
example : BadFirstFrame (idealCrypto exSent) exSent 1 (exTampered.drop 23) := by decide

/-- … fed byte by byte: `tagMismatch`, `[1,2]` decoded, frame counter 1 -/
example : ∃ rx, feedAll (idealCrypto exSent) true Rx.init (exTampered.map fun b => [b])
      = (rx, some (.frame .tagMismatch)) ∧ rx.dec.k = 1 ∧
    rx.decoded = (exSent.take 1).flatMap (payloadOf true) :=
  tampered_stream_feed (idealCrypto exSent) exSent (idealCrypto_idealFor exSent) true (by decide)
    (by decide) 1 (by decide) (okPkt_wf true _ (by decide)) (exTampered.drop 23) (by decide)
    _ (by decide)

/-- … read with 1-byte `Read`s from two segments (30 + 16 bytes) -/
example :
    let r := sessionUntilErr (idealCrypto exSent) true [1, 1, 1] Rx.init
      ([exTampered.take 30, exTampered.drop 30].map NetEv.data)
    r.1 <+: (exSent.take 1).flatMap (payloadOf true) ∧ r.2.2.2 = false ∧
      ((r.2.2.2 = true ∨ r.2.1.isSome) → r.2.1 = some (.frame .tagMismatch) ∧
        r.1 ++ r.2.2.1.decoded = (exSent.take 1).flatMap (payloadOf true)) :=
  tampered_stream_session (idealCrypto exSent) exSent (idealCrypto_idealFor exSent) true (by decide)
    (by decide) 1 (by decide) (okPkt_wf true _ (by decide)) (exTampered.drop 23) (by decide)
    _ (by decide) [1, 1, 1]

example : (sessionUntilErr (idealCrypto exSent) true [1, 1, 1] Rx.init
      ([exTampered.take 30, exTampered.drop 30].map NetEv.data)).1 = [1, 2] ∧
    (sessionUntilErr (idealCrypto exSent) true [1, 1, 1] Rx.init
      ([exTampered.take 30, exTampered.drop 30].map NetEv.data)).2.1
      = some (.frame .tagMismatch) := by decide

/-- other instances of `BadFirstFrame`: the box of frame 0 replayed in place of the box of
    frame 1 (length field of frame 1 kept); the whole stream replayed in place of frame 1, and
    after its end (`j = sent.length`) — the length field, deobfuscated with the wrong mask, is
    out of range and the random replacement lengths 53 resp. 90 are covered by the 92 bytes; an
    out-of-range length field at `j = 0`.  (A damaged frame of which fewer bytes have arrived
    than the decoder waits for is *not* an instance: the decoder then still waits.) -/
example :
    BadFirstFrame (idealCrypto exSent) exSent 1
      (((wire (idealCrypto exSent) exSent).take 25 ++
        ((wire (idealCrypto exSent) exSent).drop 2).take 21).drop 23) ∧
    BadFirstFrame (idealCrypto exSent) exSent 1
      (wire (idealCrypto exSent) exSent ++ wire (idealCrypto exSent) exSent) ∧
    BadFirstFrame (idealCrypto exSent) exSent 2
      (wire (idealCrypto exSent) exSent ++ wire (idealCrypto exSent) exSent) ∧
    BadFirstFrame (idealCrypto exSent) exSent 0 ([0, 0] ++ List.replicate 16 7) ∧
    ¬ BadFirstFrame (idealCrypto exSent) exSent 1 ((wire (idealCrypto exSent) exSent).take 23) := by
  decide

/-! ## the receive path shares no mutable state with the send path

The theorems above speak about the receive side alone.  That is only faithful if nothing the
concurrently running writer goroutine touches can reach what `Read` decodes into or parses from.
The field sets are extracted from the Go source on every run (`O4/Generated/Facts/Obfs4.lean`,
go/ast, transitively through the methods each entry point calls). -/

/-- **`Read` and `Write` share only the underlying conn and the lock-protected distributions**:
    a scratch buffer, decoder or encoder shared between `makePacket` (send path) and
    `processReceiveBuffer` (receive path) — through which outgoing plaintext could be delivered
    by `Read` with no tag mismatch — breaks this proof. -/
theorem reader_writer_state_disjoint :
    ∀ f, f ∈ O4.Facts.Obfs4.obfs4Conn_Read_fields → f ∈ O4.Facts.Obfs4.obfs4Conn_Write_fields →
      f ∈ ["Conn", "lenDist", "iatDist"] := by decide

/-- what the receive path decodes into and parses from is never touched by the send path, and the
    receive path never touches the encoder -/
theorem receive_state_private :
    (∀ f, f ∈ O4.Facts.Obfs4.obfs4Conn_processReceiveBuffer_fields →
      f ∈ O4.Facts.Obfs4.obfs4Conn_makePacket_fields → False) ∧
    "decoder" ∉ O4.Facts.Obfs4.obfs4Conn_Write_fields ∧
    "receiveBuffer" ∉ O4.Facts.Obfs4.obfs4Conn_Write_fields ∧
    "receiveDecodedBuffer" ∉ O4.Facts.Obfs4.obfs4Conn_Write_fields ∧
    "encoder" ∉ O4.Facts.Obfs4.obfs4Conn_Read_fields := by decide

/-! ## where the frame keys come from: KEY_SEED is not a public value

C05 is a statement against an adversary who sees the wire.  The link keys are `Kdf(KEY_SEED)`;
the server sends `AUTH` in the clear.  In the ntor model (`O4/Model/Ntor.lean`, tied byte for byte
to `common/ntor` by the driver `ntor`: C08's check on random and steered inputs, and this check on
the inputs of every sampled real session) the two are HMACs of different messages under
**different keys**; that their values are unrelated is a PRF assumption about HMAC-SHA256, not a
theorem — the honest statements are the structural one and its reduction form.  The harness
complements them with the on-path oracle `session-keys-derivable-from-public-transcript` (every
32-byte window of both public flights through the real KDF against the first real frames). -/

/-- **shape of the ntor outputs**: `KEY_SEED = H(t_key, secret_input)`,
    `AUTH = H(t_mac, H(t_verify, secret_input) ‖ B ‖ B ‖ X ‖ Y ‖ PROTOID ‖ ID ‖ "Server")`, and the
    three labels (regenerated from the Go constants) are pairwise distinct. -/
theorem ntor_keyseed_auth_shape (P : O4.Ntor.Prims) (exps id b x y : Bytes) :
    (O4.Ntor.ntorCommon P exps id b x y).1
      = P.hmac (O4.Ntor.bs O4.Consts.Ntor.tKey) (exps ++ O4.Ntor.suffix id b x y) ∧
    (O4.Ntor.ntorCommon P exps id b x y).2
      = P.hmac (O4.Ntor.bs O4.Consts.Ntor.tMac)
          (P.hmac (O4.Ntor.bs O4.Consts.Ntor.tVerify) (exps ++ O4.Ntor.suffix id b x y)
            ++ O4.Ntor.suffix id b x y ++ O4.Ntor.bs "Server") ∧
    O4.Consts.Ntor.tKey ≠ O4.Consts.Ntor.tMac ∧ O4.Consts.Ntor.tKey ≠ O4.Consts.Ntor.tVerify ∧
    O4.Consts.Ntor.tMac ≠ O4.Consts.Ntor.tVerify :=
  ⟨rfl, rfl, by decide, by decide, by decide⟩

/-- **reduction form**: if the value the server publishes (`AUTH`) equals the key seed, then two
    explicit HMAC computations under the distinct labels `t_key` and `t_mac` collide. -/
theorem keyseed_eq_auth_is_collision (P : O4.Ntor.Prims) (exps id b x y : Bytes)
    (h : (O4.Ntor.ntorCommon P exps id b x y).1 = (O4.Ntor.ntorCommon P exps id b x y).2) :
    P.hmac (O4.Ntor.bs O4.Consts.Ntor.tKey) (exps ++ O4.Ntor.suffix id b x y)
      = P.hmac (O4.Ntor.bs O4.Consts.Ntor.tMac)
          (P.hmac (O4.Ntor.bs O4.Consts.Ntor.tVerify) (exps ++ O4.Ntor.suffix id b x y)
            ++ O4.Ntor.suffix id b x y ++ O4.Ntor.bs "Server") ∧
    O4.Consts.Ntor.tKey ≠ O4.Consts.Ntor.tMac :=
  ⟨h, by decide⟩

/-! ## frames of one connection are useless on another: fresh ephemerals per connection

`BoxAuth` is a hypothesis about ONE connection's link keys.  That frames recorded on connection
`i` do not authenticate on connection `j` rests on the two connections having different
`KEY_SEED`s: `secret_input` contains both ephemeral public keys `X` and `Y`
(`ntor_keyseed_auth_shape`; `C08.keyseed_binding`: a different `X` or `Y` gives a different
`KEY_SEED` or exhibits an explicit HMAC collision).  The client's `X` is only fresh per *args
object* — the API allows dialling one parsed args object several times — so it is the server's
per-connection ephemeral that carries the property.  The structural fact is regenerated from the
Go source on every run (go/ast call sets, the same facts `C02.fresh_keys_structure` uses); the
harness family `xreplay` (one factory, re-dialled args, recorded frames injected at the same
position) is the matching S oracle. -/

/-- **the server draws its ntor ephemeral in every `WrapConn`, never once per factory** -/
theorem server_ephemeral_per_connection :
    "ntor.NewKeypair" ∈ O4.Facts.Obfs4.obfs4ServerFactory_WrapConn_calls ∧
    "ntor.NewKeypair" ∉ O4.Facts.Obfs4.Transport_ServerFactory_calls ∧
    "ntor.NewKeypair" ∈ O4.Facts.Obfs4.obfs4ClientFactory_ParseArgs_calls := by decide


/-- **structural fact, regenerated from the Go source on every run (go/ast)**: every package-level
    variable (file-scope `var`) of the packages this property's mechanisms live in
    (transports/obfs4, transports/obfs4/framing, common/drbg, common/ntor) is one of the names below — error values, fixed byte strings,
    flags and function hooks that the code only reads after initialisation.  The models treat all
    other state as owned by one connection / one object; a NEW package-level variable (a cache, a
    pool, a scratch buffer, a pre-keyed hash shared "to save allocations") is how such state comes
    to be shared between connections and goroutines, which compiles, passes the tests and typically
    needs true parallelism or a multi-connection history to misbehave.  Adding one breaks this
    theorem; the concurrent / multi-connection families of the harness then search for the failing
    schedule. -/
theorem no_new_package_level_state :
    O4.Facts.Obfs4.pkg_vars ⊆ ["ErrInvalidHandshake", "ErrMarkNotFoundYet", "ErrNtorFailed", "ErrReplayedHandshake", "biasedDist", "zeroPadBytes"] ∧
    O4.Facts.Framing.pkg_vars ⊆ ["ErrAgain", "ErrNonceCounterWrapped", "ErrTagMismatch"] ∧
    O4.Facts.Drbg.pkg_vars ⊆ [] ∧
    O4.Facts.Ntor.pkg_vars ⊆ ["mExpand", "protoID", "tKey", "tMac", "tVerify"] := by
  decide

end C05
