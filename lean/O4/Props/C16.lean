import O4.Lemmas.Meek
import O4.Generated.Facts.Meeklite
/-!
# C16 — meek_lite carries the byte stream intact through HTTP polling

Property theorems only.  Model: `O4/Model/Meek.lean` (interleaving semantics of the
application, the `ioWorker` goroutine and the server over two bounded FIFO channels; every
list of `Choice`s is a schedule, so statements about `run … cs` for all `cs` are statements
about all interleavings).  Helper lemmas: `O4/Lemmas/Meek.lean`.  The constants
`maxPayloadLength`, `maxChanBacklog`, `maxRetries` are regenerated from the Go tree.
-/
namespace C16
open O4 O4.Meek O4.Consts.Meeklite

/-- **upstream_conserved**: in every reachable state, while every response was 200, the request
    bodies issued so far, followed by what the worker still holds (`leftBuf` / the uncut part of
    `sndBuf`), followed by the queued writes, are exactly the accepted writes, in order: nothing
    lost, duplicated or reordered. -/
theorem upstream_conserved (fixed : Bool) (sid : Nat) (cs : List Choice)
    (h200 : (run fixed (init sid) cs).failed = false) :
    bodies (run fixed (init sid) cs) ++ pendingUp (run fixed (init sid) cs)
        ++ (run fixed (init sid) cs).wrQ.flatten
      = (run fixed (init sid) cs).accepted.flatten :=
  (inv_run fixed _ cs (inv_init sid)).up h200

/-- **no duplication**: while every answer was 200 the request bodies issued so far are a
    prefix of the accepted writes — a body is sent once, however long its answer takes (the
    model re-sends a body only after a non-200 answer, `WPc.retry`). -/
theorem no_duplication (fixed : Bool) (sid : Nat) (cs : List Choice)
    (h200 : (run fixed (init sid) cs).failed = false) :
    bodies (run fixed (init sid) cs) <+: (run fixed (init sid) cs).accepted.flatten :=
  ⟨_, by rw [← List.append_assoc]; exact upstream_conserved fixed sid cs h200⟩

/-- the `http.Transport` of a connection has no response timeout (regenerated from the Go tree:
    `newMeekConn`): a slow answer is waited for, the request is not given up and re-sent. -/
theorem transport_never_gives_up_on_a_slow_answer :
    transportResponseHeaderTimeout = 0 := by decide

/-- two writes are queued while a poll is in flight and coalesced into the next request -/
example :
    let s := run true (init 7) [.wTimer, .wStep, .writeCall [1, 2], .writeEnq, .writeCall [3], .writeEnq,
      .sOk [], .wStep, .wRecv, .wStep, .wStep]
    s.reqs = [(7, []), (7, [1, 2, 3])] ∧ s.accepted = [[1, 2], [3]] ∧ s.failed = false := by
  decide

/-- **downstream_conserved**: the bytes `Read` has returned, followed by the reader's carry-over
    buffer, the queued responses and the response the worker is about to queue, are exactly the
    200 response bodies, in order.  (`dropped` — a response given up by a worker that saw the
    close while handing it over — is empty until `Close` has taken effect and the worker has
    left its loop.) -/
theorem downstream_conserved (fixed : Bool) (sid : Nat) (cs : List Choice) :
    ((run fixed (init sid) cs).readOut.flatten ++ (run fixed (init sid) cs).rdBuf
        ++ (run fixed (init sid) cs).rdQ.flatten ++ pendingDown (run fixed (init sid) cs)
        ++ (run fixed (init sid) cs).dropped.flatten
      = (run fixed (init sid) cs).resps.flatten) ∧
    ((run fixed (init sid) cs).dropped ≠ [] →
      (run fixed (init sid) cs).closed = true ∧ exited (run fixed (init sid) cs) = true) :=
  ⟨(inv_run fixed _ cs (inv_init sid)).down, (inv_run fixed _ cs (inv_init sid)).drop⟩

/-- a 3-byte response read through a 2-byte buffer: 2 bytes out, 1 in the carry-over -/
example :
    let s := run true (init 7) [.wTimer, .wStep, .sOk [9, 8, 7], .wStep, .wStep, .readCall 2, .readDeq]
    s.readOut = [[9, 8]] ∧ s.rdBuf = [7] ∧ s.resps = [[9, 8, 7]] := by
  decide

/-- **body_bound**: no request body exceeds `maxPayloadLength`, which is 65536. -/
theorem body_bound (fixed : Bool) (sid : Nat) (cs : List Choice) :
    (∀ r ∈ (run fixed (init sid) cs).reqs, r.2.length ≤ maxPayloadLength) ∧ maxPayloadLength = 65536 :=
  ⟨(inv_run fixed _ cs (inv_init sid)).bound, by decide⟩

/-- **one_in_flight**: every request but possibly the last has been answered: the number of
    requests issued is the number answered plus one exactly when the worker is inside
    `roundTrip` — a new request is only issued from a state with none in flight. -/
theorem one_in_flight (fixed : Bool) (sid : Nat) (cs : List Choice) :
    (run fixed (init sid) cs).reqs.length
      = (run fixed (init sid) cs).answered + (if inFlight (run fixed (init sid) cs) then 1 else 0) :=
  (inv_run fixed _ cs (inv_init sid)).flight

/-- **same_session_id**: every request carries the connection's session identifier, which
    never changes. -/
theorem same_session_id (fixed : Bool) (sid : Nat) (cs : List Choice) :
    (∀ r ∈ (run fixed (init sid) cs).reqs, r.1 = sid) ∧ (run fixed (init sid) cs).sid = sid := by
  have h1 := (inv_run fixed _ cs (inv_init sid)).sidc
  have h2 : (run fixed (init sid) cs).sid = sid := sid_run fixed (init sid) cs
  exact ⟨fun r hr => (h1 r hr).trans h2, h2⟩

/-- the channels never hold more than `maxChanBacklog` (16) entries -/
theorem queues_bounded (fixed : Bool) (sid : Nat) (cs : List Choice) :
    (run fixed (init sid) cs).wrQ.length ≤ maxChanBacklog ∧
      (run fixed (init sid) cs).rdQ.length ≤ maxChanBacklog :=
  (inv_run fixed _ cs (inv_init sid)).qcap

/-- **after_close, Write**: from the moment `Close` has taken effect (and for ever after:
    `closed` is stable under every step), a `Write` that is called fails and queues nothing. -/
theorem after_close_write (fixed : Bool) (sid : Nat) (cs cs' : List Choice) (b : Bytes)
    (hc : (run fixed (init sid) cs).closed = true)
    (hidle : (run fixed (run fixed (init sid) cs) cs').wr = .idle) :
    let s := run fixed (run fixed (init sid) cs) cs'
    s.closed = true ∧ (step fixed s (.writeCall b)).out = .wFail :: s.out ∧
      (step fixed s (.writeCall b)).wrQ = s.wrQ ∧ (step fixed s (.writeCall b)).accepted = s.accepted := by
  have hcl := closed_run fixed _ cs' hc
  simp only [step, stepWriteCall, hidle, hcl, ↓reduceIte, say, and_self]

/-- **after_close, worker**: once the worker has observed the close (or failed) and left its
    loop it never issues another request; and observing the close is enabled at every loop
    head — "polling stops" under a fair `select`. -/
theorem after_close_worker (fixed : Bool) (sid : Nat) (cs cs' : List Choice) :
    (exited (run fixed (init sid) cs) = true →
      exited (run fixed (run fixed (init sid) cs) cs') = true ∧
      (run fixed (run fixed (init sid) cs) cs').reqs = (run fixed (init sid) cs).reqs) ∧
    ((run fixed (init sid) cs).closed = true → (run fixed (init sid) cs).wpc = .sel →
      (step fixed (run fixed (init sid) cs) .wClose).wpc = .x1) := by
  refine ⟨fun h => exited_run fixed _ cs' h, fun hc hs => ?_⟩
  simp [step, hs, hc]

private theorem retry_close_fixed (s : State) (snd : Bytes) (wrSz k : Nat) (hcl : s.closed = true)
    (hs : s.wpc = .retry snd wrSz k) : (step true s .wClose).wpc = .x1 := by
  simp [step, hs, hcl]

private theorem read_fixed (s : State) (n : Nat) (hcl : s.closed = true) (hr : s.rd = .idle) :
    (step true s (.readCall n)).out = .rFail :: s.out ∧ (step true s (.readCall n)).readOut = s.readOut := by
  simp only [step, stepReadCall, hr, hcl, Bool.and_self, ↓reduceIte, say, and_self]

/-- **after_close, Read** (the code under test, `step codeFixed`): from the moment `Close` has
    taken effect, a `Read` that is called fails and delivers nothing — whatever is still queued
    or left in the carry-over buffer. -/
theorem after_close_read (sid : Nat) (cs cs' : List Choice) (n : Nat)
    (hc : (run codeFixed (init sid) cs).closed = true)
    (hidle : (run codeFixed (run codeFixed (init sid) cs) cs').rd = .idle) :
    let s := run codeFixed (run codeFixed (init sid) cs) cs'
    (step codeFixed s (.readCall n)).out = .rFail :: s.out ∧
      (step codeFixed s (.readCall n)).readOut = s.readOut := by
  exact read_fixed _ n (closed_run codeFixed _ cs' hc) hidle

/-- **after_close**: Write, Read and the worker together, for the code under test: the
    connection stays closed; a Write / Read that is called fails; a worker that has left its loop
    issues no further request; and leaving is enabled wherever the worker waits — at the loop
    head (`select`) and in `roundTrip`'s retry wait. -/
theorem after_close (sid : Nat) (cs cs' : List Choice) (b : Bytes) (n : Nat)
    (hc : (run codeFixed (init sid) cs).closed = true) :
    let s := run codeFixed (run codeFixed (init sid) cs) cs'
    s.closed = true ∧
    (s.wr = .idle → (step codeFixed s (.writeCall b)).out = .wFail :: s.out) ∧
    (s.rd = .idle → (step codeFixed s (.readCall n)).out = .rFail :: s.out) ∧
    (exited s = true → ∀ cs'', (run codeFixed s cs'').reqs = s.reqs) ∧
    (s.wpc = .sel → (step codeFixed s .wClose).wpc = .x1) ∧
    (∀ snd wrSz k, s.wpc = .retry snd wrSz k → (step codeFixed s .wClose).wpc = .x1) := by
  have hcl := closed_run codeFixed _ cs' hc
  refine ⟨hcl, fun hw => ?_, fun hr => ?_, fun he cs'' => (exited_run codeFixed _ cs'' he).2, fun hs => ?_,
    fun snd wrSz k hs => ?_⟩
  · simp only [step, stepWriteCall, hw, hcl, ↓reduceIte, say]
  · exact (read_fixed _ n hcl hr).1
  · simp [step, hs, hcl]
  · exact retry_close_fixed _ snd wrSz k hcl hs

/-- a session that is closed with a response still queued: the post-close Write and Read fail -/
example :
    let s := run codeFixed (init 3) [.wTimer, .wStep, .sOk [1, 2, 3], .wStep, .wStep, .close]
    s.closed = true ∧ s.rdQ = [[1, 2, 3]] ∧ s.wr = .idle ∧ s.rd = .idle ∧ s.wpc = .sel := by
  decide

/-- **after_close, a Write in progress**: a `Write` that is blocked on the full send queue when
    `Close` is called comes back with an error: wherever the worker waits it can leave (the
    `select`, the retry wait — `after_close` — and, with the hand-over that also watches the
    close channel, the enqueue of a response nobody reads); two steps after leaving it has closed
    the send channel without touching the pending Write, whose send then fails. -/
theorem after_close_write_in_progress (fixed : Bool) (s : State) (b : Bytes) (hw : s.wr = .enq b) :
    (s.closed = true → ∀ body, s.wpc = .enq body → (step fixed s .wClose).wpc = .x1) ∧
    (s.wpc = .x1 → (run fixed s [.wStep, .wStep]).wrClosed = true ∧
      (run fixed s [.wStep, .wStep]).wr = .enq b) ∧
    (s.wrClosed = true → (step fixed s .writeEnq).out = .wFail :: s.out ∧
      (step fixed s .writeEnq).wr = .idle) := by
  refine ⟨fun hc body hs => ?_, fun hs => ?_, fun hcl => ?_⟩
  · simp [step, hs, hc]
  · simp [run, step, stepWorker, hs, hw]
  · simp [step, stepWriteEnq, hw, hcl, say]

/-- the reader is gone, the queues are full, a Write is blocked, `Close`: the Write fails -/
example :
    let s : State := { closed := true, wpc := .enq [9], wr := .enq [1], rdQ := List.replicate 16 [7],
                       wrQ := List.replicate 16 [1] }
    (run true s [.writeEnq, .wClose, .wStep, .wStep, .writeEnq]).out = [.wFail] := by
  decide

/-- **after_close, Close during the retry wait**: the server answered non-200 and the worker
    waits `retryDelay`; once `Close` has taken effect the worker can leave that wait at once
    (`wClose` is enabled there), and after it has, NO further request is ever issued, whatever
    the other actors do — zero requests after a Close observed in the retry wait. -/
theorem no_request_after_close_in_retry_wait (s : State) (snd : Bytes) (wrSz k : Nat)
    (hcl : s.closed = true) (hs : s.wpc = .retry snd wrSz k) (cs : List Choice) :
    (run codeFixed (step codeFixed s .wClose) cs).reqs = s.reqs := by
  have h1 : (step true s .wClose).wpc = .x1 := retry_close_fixed s snd wrSz k hcl hs
  have h2 : (step true s .wClose).reqs = s.reqs := by simp [step, hs, hcl]
  have hex : exited (step true s .wClose) = true := by simp [exited, h1]
  exact ((exited_run true _ cs hex).2).trans h2

/-- non-200, Close, the worker leaves the retry wait; the timer step afterwards changes nothing -/
example :
    let s := run codeFixed (init 1) [.wTimer, .wStep, .sNon200, .close, .wClose]
    s.reqs.length = 1 ∧ (run codeFixed s [.wStep, .wStep, .wStep, .wTimer, .wStep]).reqs.length = 1 := by
  decide

/-- **F7, the defect of the released `Read`** (`fixed = false`): a response arrives, the
    application closes the connection, `Close` returns — and the next `Read` still returns the
    leftover response data with a nil error. -/
theorem read_after_close_counterexample :
    (run false (init 0) [.wTimer, .wStep, .sOk [1, 2, 3], .wStep, .wStep, .close, .readCall 8, .readDeq]).out
      = [.rData [1, 2, 3], .closeOk] := by
  decide

/-- **the second defect of the released code** (`fixed = false`): a poll is answered non-200,
    the application closes, `Close` returns — and when the retry delay has passed the worker
    sends the request again (`wClose` is not enabled in the retry wait: the state is unchanged). -/
theorem retry_after_close_counterexample :
    let s := run false (init 0) [.wTimer, .wStep, .sNon200, .close]
    s.out = [.closeOk] ∧ s.reqs.length = 1 ∧ step false s .wClose = s ∧
      (step false s .wStep).reqs.length = 2 := by
  decide

/-- the same schedule with the close check in `Read`: the Read fails -/
example :
    (run true (init 0) [.wTimer, .wStep, .sOk [1, 2, 3], .wStep, .wStep, .close, .readCall 8, .readDeq]).out
      = [.rFail, .closeOk] := by
  decide


/-- **structural fact, regenerated from the Go source on every run (go/ast)**: every package-level
    variable (file-scope `var`) of the packages this property's mechanisms live in
    (transports/meeklite) is one of the names below — error values, fixed byte strings,
    flags and function hooks that the code only reads after initialisation.  The models treat all
    other state as owned by one connection / one object; a NEW package-level variable (a cache, a
    pool, a scratch buffer, a pre-keyed hash shared "to save allocations") is how such state comes
    to be shared between connections and goroutines, which compiles, passes the tests and typically
    needs true parallelism or a multi-connection history to misbehave.  Adding one breaks this
    theorem; the concurrent / multi-connection families of the harness then search for the failing
    schedule. -/
theorem no_new_package_level_state :
    O4.Facts.Meeklite.pkg_vars ⊆ ["ErrNotSupported", "loopbackAddr"] := by
  decide

end C16
