import O4.Lemmas.Obfs4Server
import O4.Lemmas.ServerAccept
import O4.Generated.Facts.Obfs4
import O4.Generated.Facts.Replayfilter
/-!
# C03 — the obfs4 server is silent to anyone who cannot prove knowledge of the bridge line

Property theorems only.  Model: `O4/Model/Obfs4Server.lean` (`WrapConn` / `serverHandshake` /
`closeAfterDelay` as an event machine over an **arbitrary** list of network events) on top of
`O4/Model/Handshake.lean` (`parseClientHandshake`); helper lemmas: `O4/Lemmas/Obfs4Server.lean`.
All theorems hold for every primitive structure `P` (no cryptographic hypothesis is needed: the
hypothesis of the property is phrased with the acceptance predicate of the parser itself), every factory
(identity, close delay), every connection (accept time, session key, reply function), every initial
replay-filter state and every event list (chunking, pauses, disconnects, clock readings).

Interpretation recorded here (see the model's header): the base handshake deadline `start + 30 s` is an
error like any other when it fires, so a silent or stalling peer is *not* dropped at 30 s but moved to the
discard phase, whose read deadline is `start + 30 s + closeDelay`.
-/
namespace C03
open O4 O4.Obfs4Server O4.Handshake O4.Consts.Obfs4

/-- **the hypothesis of the property**: at no read boundary of the handshake phase does the receive
    buffer satisfy the acceptance predicate of `parseClientHandshake`
    (`Accepts` = long enough ∧ `M_C` at the tail ∧ `MAC_C` valid for hour−1/hour/hour+1 ∧ not a replay ∧
    no trailing bytes ∧ ntor succeeded). -/
def NoValidHandshake (P : Prims) (F : Factory) (c : Conn) (f : RF.Filter) (evs : List Ev) : Prop :=
  ∀ k ∈ calls P F c f evs, ¬ Accepts P k.hs k.filter k.hour k.now k.buf

/-- `Accepts` *is* the acceptance predicate: the parser returns a key seed exactly when it holds. -/
theorem accepts_is_acceptance (P : Prims) (s : Server) (f : RF.Filter) (H now : Int) (resp : Bytes) :
    (∃ seed, (parseClientHandshake P s f H now resp).2.2 = .ok seed) ↔
      (clientMinHandshakeLength ≤ resp.length ∧
        ∃ pos, markPos P s resp = some pos ∧ MacValid P s H resp pos ∧ NotReplay P s f H now resp pos ∧
          resp.length = pos + markLength + macLength ∧ (ntorOf P s (cacheOn P s resp)).1 = true) :=
  accepts_iff P s f H now resp

/-- the parser is only ever run at read boundaries: every buffer it sees is the concatenation of all
    bytes received in the first `n` reads, for some `n`; and cutting arrivals into reads of at most
    `maxHandshakeLength` bytes does not change the byte stream. -/
theorem parsed_at_read_boundaries (P : Prims) (F : Factory) (c : Conn) (f : RF.Filter) (evs : List Ev) :
    (∀ k ∈ calls P F c f evs, ∃ n, k.buf = recvBytes ((normalize evs).take n)) ∧
    recvBytes (normalize evs) = recvBytes evs := by
  constructor
  · intro k hk
    obtain ⟨n, hn⟩ := calls_at_boundaries_from P F c (normalize evs) (initState F c f) []
      (by intro hs buf h; simp [initState] at h; exact h.2) k hk
    exact ⟨n, by simpa using hn⟩
  · induction evs with
    | nil => rfl
    | cons e rest ih =>
      have hcons : normalize (e :: rest) = normalizeEv e ++ normalize rest := by simp [normalize]
      have happ : ∀ a b : List Ev, recvBytes (a ++ b) = recvBytes a ++ recvBytes b := by
        intro a b; induction a with
        | nil => rfl
        | cons x xs ihx => simp [recvBytes, ihx, List.append_assoc]
      rw [hcons, happ, ih]
      simp only [recvBytes]
      congr 1
      unfold normalizeEv
      split
      · rename_i chunk hev
        have : ∀ l : List Bytes, recvBytes (l.map (fun p => { e with ev := NetEv.recv p })) = l.flatten := by
          intro l; induction l with
          | nil => rfl
          | cons x xs ihx => simp [recvBytes, ihx]
        rw [this, splitReads_join, hev]
      · simp [recvBytes]

/-- **silent**: for EVERY event sequence in which no buffer at a read boundary satisfies the
    acceptance predicate, the server writes nothing — not a single byte, ever — and `WrapConn`
    does not hand a connection to its caller. -/
theorem silent (P : Prims) (F : Factory) (c : Conn) (f : RF.Filter) (evs : List Ev)
    (h : NoValidHandshake P F c f evs) :
    (∀ b, Out.write b ∉ (run P F c f evs).2) ∧ (run P F c f evs).1.phase ≠ .established ∧
      Out.returnOk ∉ (run P F c f evs).2 := by
  have hs := silent_from P F c (normalize evs) (initState F c f) (by simp [initState]) h
  refine ⟨?_, hs.2, ?_⟩
  · intro b hb
    simp only [run, initOuts, List.mem_append, List.mem_singleton] at hb
    rcases hb with hb | hb
    · simp at hb
    · exact hs.1 b hb
  · -- `returnOk` is only ever emitted together with a `write`
    intro hb
    simp only [run, initOuts, List.mem_append, List.mem_singleton] at hb
    rcases hb with hb | hb
    · simp at hb
    · have key : ∀ (evs : List Ev) (s : State), s.phase ≠ .established → NoAccept P F c s evs →
          Out.returnOk ∉ outsOf (runFrom P F c s evs).2 := by
        intro evs
        induction evs with
        | nil => intro s _ _; simp [runFrom, outsOf]
        | cons e rest ih =>
          intro s hne hna
          have hq := quiet_step P F c s e hne hna.head
          have := ih _ (hq.phase_ne hne) hna.tail
          rw [runFrom_cons, outsOf_cons, List.mem_append]
          rintro (h1 | h1)
          · generalize step P F c s e = r at hq h1
            cases hq <;> simp at h1
          · exact this h1
      exact key _ _ (by simp [initState]) h hb

/-- the converse, so that the hypothesis of `silent` is the exact dividing line: a buffer at a read
    boundary that satisfies the acceptance predicate **is** answered (response written). -/
theorem valid_is_answered (P : Prims) (F : Factory) (c : Conn) (f : RF.Filter) (evs : List Ev)
    (h : ∃ k ∈ calls P F c f evs, Accepts P k.hs k.filter k.hour k.now k.buf) :
    ∃ b, Out.write b ∈ (run P F c f evs).2 := by
  obtain ⟨b, hb⟩ := answered_from P F c (normalize evs) (initState F c f) h
  exact ⟨b, by simp only [run, List.mem_append]; exact Or.inr hb⟩

/-- **uniform close** — in every run without a valid handshake, with
    `D = start + serverHandshakeTimeout + closeDelay·1 s`:

    1. everything the peer can observe on the conn is the handshake deadline followed by one of four
       tails: nothing yet; `SetReadDeadline(D)`; `SetReadDeadline(D), Close`; or `Close` alone.  Hence
       at most one `Close`, every read deadline ever armed after a failure is exactly `D` — the same
       function of (accept time, bridge seed) for *every* kind of invalid input —, no write.
    2. a `Close` happens only in response to the peer disconnecting, or to the armed read deadline `D`
       firing (`SetReadDeadline(D)` was issued before), or when the failure itself is detected
       after `D` (then `closeAfterDelay` closes at once — the `closeDelay = 0` corner, where the base
       deadline and `D` coincide). -/
theorem uniform_close (P : Prims) (F : Factory) (c : Conn) (f : RF.Filter) (evs : List Ev)
    (h : NoValidHandshake P F c f evs) :
    let D := closeDeadline c.start F.closeDelay
    (∃ w, wire (run P F c f evs).2 = Out.setDeadline (some (c.start + (serverHandshakeTimeout : Int))) :: w ∧
      (w = [] ∨ w = [.setReadDeadline D] ∨ w = [.setReadDeadline D, .close] ∨ w = [.close])) ∧
    (∀ pre e o post, (trace P F c f evs).2 = pre ++ (e, o) :: post → Out.close ∈ o →
      e.ev = .peerCloses ∨ (e.ev = .readDeadlineFires ∧ Out.setReadDeadline D ∈ outsOf pre) ∨ D < e.now) := by
  intro D
  constructor
  · have hsh := shape_from P F c (normalize evs) (initState F c f) (by simp [initState]) h
    refine ⟨wire (outsOf (trace P F c f evs).2), ?_, ?_⟩
    · simp [run, initOuts, wire, List.filter, Out.isWire, outsOf]
    · simpa [initState, Shape, trace] using hsh
  · intro pre e o post htr hcl
    rcases close_cause_from P F c (normalize evs) (initState F c f) (by simp [initState]) h pre e o post htr hcl
      with h1 | h1 | ⟨h1, h2⟩
    · exact Or.inl h1
    · exact Or.inr (Or.inr h1)
    · rcases h2 with ⟨er, h2⟩ | h2
      · simp [initState] at h2
      · exact Or.inr (Or.inl ⟨h1, h2⟩)

/-- the close delay is a function of the bridge's DRBG seed alone (`rand.New(drbg).Intn(maxCloseDelay)`),
    and — by `Intn n < n` and the **regenerated** constants `maxCloseDelay`, `serverHandshakeTimeout` —
    the close deadline lies in `[accept + 30 s, accept + 90 s)`. -/
theorem close_time_range (seed : Bytes) (cd : Nat) (start : Int) (h : closeDelayOfSeed seed = some cd) :
    cd < maxCloseDelay ∧
    start + 30 * second ≤ closeDeadline start cd ∧ closeDeadline start cd < start + 90 * second := by
  have hlt := closeDelayOfSeed_lt seed cd h
  refine ⟨hlt, ?_, ?_⟩ <;>
  · simp only [closeDeadline, closeDelayNs, second, serverHandshakeTimeout, maxCloseDelay] at *
    omega

/-- **keeps reading (1)**: the handshake-phase receive buffer is bounded — at every parser invocation
    of every run (valid or not) it is shorter than `2·maxHandshakeLength`: the loop stops with
    `ErrInvalidHandshake` once `len ≥ maxHandshakeLength` and one read adds at most `maxHandshakeLength`. -/
theorem keeps_reading_bounded (P : Prims) (F : Factory) (c : Conn) (f : RF.Filter) (evs : List Ev) :
    ∀ k ∈ calls P F c f evs, k.buf.length < 2 * maxHandshakeLength :=
  calls_bounded_from P F c (normalize evs) (initState F c f) (normalize_readSized evs)
    (by intro hs buf h; simp [initState] at h; rw [h.2]; decide)

/-- **keeps reading (2)**: between failure and close every `recv` is consumed and discarded — in the
    discard phase any number of arrivals produce no output and change nothing, and the phase ends
    only with a read *error* (the deadline firing or the peer disconnecting), which closes. -/
theorem keeps_reading (P : Prims) (F : Factory) (c : Conn) (s : State) (er : Err)
    (hph : s.phase = .discarding er) :
    (∀ evs : List Ev, (∀ e ∈ evs, ∃ chunk, e.ev = .recv chunk) →
      runFrom P F c s evs = (s, evs.map (fun e => (e, [])))) ∧
    (∀ e : Ev, e.ev = .readDeadlineFires ∨ e.ev = .peerCloses →
      step P F c s e = (⟨.closed, s.filter⟩, [.close, .returnErr er])) :=
  ⟨discarding_recvs P F c s er hph, fun e he => discarding_ends P F c s er e hph he⟩

/-- … and a failed handshake *does* lead to the discard phase (or directly to the close in the two
    corner cases of `uniform_close`): every step of a run without a valid handshake is one of the
    seven quiet steps. -/
theorem failure_enters_discard (P : Prims) (F : Factory) (c : Conn) (s : State) (e : Ev)
    (hne : s.phase ≠ .established) (hna : ∀ k, callOf s e = some k → ¬ k.Accepted P) :
    QuietStep F c s e (step P F c s e) :=
  quiet_step P F c s e hne hna

/-- **deadline armed first**: whatever happens, the first thing done to the conn is
    `SetDeadline(start + serverHandshakeTimeout)`, before any `Read` is consumed. -/
theorem deadline_armed_first (P : Prims) (F : Factory) (c : Conn) (f : RF.Filter) (evs : List Ev) :
    ∃ rest, (run P F c f evs).2 = Out.setDeadline (some (c.start + (serverHandshakeTimeout : Int))) :: rest ∧
      (run P F c f []).2 = [Out.setDeadline (some (c.start + (serverHandshakeTimeout : Int)))] :=
  ⟨_, rfl, rfl⟩

/-- **deadline discipline, every run** (valid handshake or not; also what C10 asks of the obfs4 server
    handshake): everything done to the conn is `SetDeadline(start + 30 s)` followed by exactly one of
    — nothing yet; `SetReadDeadline(D)`; `SetReadDeadline(D), Close`; `Close`; or, on success,
    `SetDeadline(time.Time{})` (the last deadline event is the clear) and **one** write. -/
theorem deadline_discipline (P : Prims) (F : Factory) (c : Conn) (f : RF.Filter) (evs : List Ev) :
    let D := closeDeadline c.start F.closeDelay
    ∃ w, wire (run P F c f evs).2 = Out.setDeadline (some (c.start + (serverHandshakeTimeout : Int))) :: w ∧
      (w = [] ∨ w = [.setReadDeadline D] ∨ w = [.setReadDeadline D, .close] ∨ w = [.close]
        ∨ ∃ b, w = [.setDeadline none, .write b]) := by
  intro D
  have hsh := shape_all_from P F c (normalize evs) (initState F c f)
  refine ⟨wire (outsOf (trace P F c f evs).2), ?_, ?_⟩
  · simp [run, initOuts, wire, List.filter, Out.isWire, outsOf]
  · simpa [initState, ShapeAll, trace] using hsh

/-- **"or that replays one", at capacity: a full filter forgets only its eldest entry.**  With the replay
    filter full (`maxFilterSize` remembered MACs, or any other capacity), the forced eviction of
    `compactFilter` takes exactly the front entry and TTL-based compaction resumes; so a replay of any
    remembered handshake **other than the eldest one** is still not accepted (and by `silent` not
    answered).  (`C11.evicts_oldest` is the same step for a *new* value.) -/
theorem full_filter_forgets_only_eldest (P : Prims) (s : Server) (f : RF.Filter) (e0 : RF.Entry)
    (rest : List RF.Entry) (H now : Int) (resp : Bytes) (pos : Nat)
    (hf : f.fifo = e0 :: rest) (hfull : f.fifo.length = f.cap) (httl : 0 < f.ttl)
    (hfront : ∀ e, rest.head? = some e → e.t ≤ now ∧ now - e.t < f.ttl)
    (hpos : markPos P s resp = some pos)
    (hmem : ∃ e ∈ rest, e.d = Bytes.toNatBE (macAt resp pos)) :
    ¬ Accepts P s f H now resp := by
  intro hacc
  obtain ⟨seed, hs⟩ := (accepts_iff P s f H now resp).mpr hacc
  exact parse_not_ok_of_seen P s f H now resp pos hpos
    (RF.full_keeps_all_but_eldest f e0 rest now _ hf hfull httl hfront hmem) seed hs

/-- the driver's bulk fill (`fac.fill`, used to bring the model's filter to capacity like the real one)
    is `TestAndSet` repeated: distinct new values, below capacity, young eldest entry ⇒ every answer
    is "new" and the values are appended in order. -/
theorem fill_is_repeated_testAndSet (now : Int) (ds : List Nat) (f : RF.Filter) (httl : 0 < f.ttl)
    (hroom : f.fifo.length + ds.length ≤ f.cap)
    (hfront : ∀ e, f.fifo.head? = some e → e.t ≤ now ∧ now - e.t < f.ttl)
    (hnd : ds.Nodup) (hfresh : ∀ d ∈ ds, ∀ e ∈ f.fifo, e.d ≠ d) :
    f.run (ds.map (fun d => (now, d))) = (f.fillFresh now ds, ds.map (fun _ => false)) :=
  RF.fillFresh_eq_run now ds f httl hroom hfront hnd hfresh

/-! ## Non-vacuity: concrete instances (toy primitives, evaluated by the kernel) -/

/-- a toy keyed hash: 32 equal bytes derived from a rolling checksum of key and message -/
def toyHmac (k m : Bytes) : Bytes :=
  List.replicate 32 (UInt8.ofNat ((k ++ m).foldl (fun a x => (a * 31 + x.toNat + 1) % 251) 7))

def toyPrims : Prims :=
  { hmac := toyHmac, x25519 := fun _ p => p, hkdf := fun _ _ _ n => Bytes.zeros n, reprToPublic := id }

def toyF : Factory := { idPriv := [1], idPub := [2], nodeID := [3], closeDelay := 17 }
def toyC : Conn := { start := 1000, yPriv := [4], yPub := [5], yRepr := [6], reply := fun _ seed => seed }

/-- a valid client handshake of the toy instance for hour 500000: representative 32×`9`, 77 bytes of padding -/
def toyBlob : Bytes := clientBlob toyPrims [2] [3] (List.replicate 32 9) (List.replicate 77 0) 500000

def ev (now : Int) (e : NetEv) : Ev := ⟨now, 500001, e⟩

/-- junk, then silence until both deadlines fire: nothing written, closed by the second deadline -/
example : (run toyPrims toyF toyC newFilter
      [ev 2000 (.recv (List.replicate 200 7)), ev 30000001000 .readDeadlineFires, ev 30000001500 (.recv [1, 2]),
       ev 47000001000 .readDeadlineFires]).2
    = [.setDeadline (some 30000001000), .setReadDeadline 47000001000, .close, .returnErr .timeout] := by
  decide +kernel

/-- that run meets the hypothesis of `silent` / `uniform_close` -/
example : NoValidHandshake toyPrims toyF toyC newFilter
    [ev 2000 (.recv (List.replicate 200 7)), ev 30000001000 .readDeadlineFires] := by
  intro k hk
  have : calls toyPrims toyF toyC newFilter
      [ev 2000 (.recv (List.replicate 200 7)), ev 30000001000 .readDeadlineFires]
      = [⟨newServer toyF toyC, newFilter, 500001, 2000, List.replicate 200 7⟩] := by decide +kernel
  rw [this] at hk
  simp only [List.mem_singleton] at hk
  subst hk
  rw [← accepts_iff]
  have : (parseClientHandshake toyPrims (newServer toyF toyC) newFilter 500001 2000 (List.replicate 200 7)).2.2
      = .err .markNotFoundYet := by decide +kernel
  rw [this]; simp

/-- the valid handshake (stamped one hour behind the server's clock), split into two reads, **is**
    answered — so the acceptance predicate is satisfiable and the dividing line is not vacuous -/
example : (run toyPrims toyF toyC newFilter
      [ev 2000 (.recv (toyBlob.take 100)), ev 3000 (.recv (toyBlob.drop 100))]).2
    = [.setDeadline (some 30000001000), .setDeadline none,
       .write (Ntor.serverHandshake toyPrims.toPrims (List.replicate 32 9) [4] [5] [1] [2] [3]).2.1, .returnOk] := by
  decide +kernel

/-- the same bytes followed by one more byte in the same read are *not* accepted, and a replay of the
    accepted handshake on a second connection is treated like junk -/
example : (run toyPrims toyF toyC newFilter [ev 2000 (.recv (toyBlob ++ [0]))]).2
    = [.setDeadline (some 30000001000)] := by
  decide +kernel

example :
    let f1 := (run toyPrims toyF toyC newFilter [ev 2000 (.recv toyBlob)]).1.filter
    (run toyPrims toyF toyC f1 [ev 5000 (.recv toyBlob)]).2
      = [.setDeadline (some 30000001000), .setReadDeadline 47000001000] := by
  decide +kernel

/-- the deployed constants give the 30–90 s range -/
example : closeDeadline 0 0 = 30 * second ∧ closeDeadline 0 59 = 89 * second := by decide

/-- **structural facts, regenerated from the Go source on every run (go/ast call sets)**: the close
    delay is drawn (`rng.Intn`) in `ServerFactory` — once per bridge — and never in `WrapConn`;
    `WrapConn` sends every failed handshake through `closeAfterDelay`; `closeAfterDelay` arms a
    read deadline, discards with `io.Copy`, closes, and contains no call that writes to the
    peer.  (What the model's event machine assumes about *where* these things happen.) -/
theorem close_path_structure :
    "rng.Intn" ∈ O4.Facts.Obfs4.Transport_ServerFactory_calls ∧
    "rng.Intn" ∉ O4.Facts.Obfs4.obfs4ServerFactory_WrapConn_calls ∧
    "rng.Intn" ∉ O4.Facts.Obfs4.obfs4Conn_closeAfterDelay_calls ∧
    "c.closeAfterDelay" ∈ O4.Facts.Obfs4.obfs4ServerFactory_WrapConn_calls ∧
    "Conn.SetReadDeadline" ∈ O4.Facts.Obfs4.obfs4Conn_closeAfterDelay_calls ∧
    "io.Copy" ∈ O4.Facts.Obfs4.obfs4Conn_closeAfterDelay_calls ∧
    "Conn.Close" ∈ O4.Facts.Obfs4.obfs4Conn_closeAfterDelay_calls ∧
    "Conn.Write" ∉ O4.Facts.Obfs4.obfs4Conn_closeAfterDelay_calls ∧
    "Conn.SetDeadline" ∈ O4.Facts.Obfs4.obfs4Conn_serverHandshake_calls := by
  decide

/-- **silence to replays under CONCURRENT arrivals rests on this (structural facts, go/ast, regenerated
    on every run)**.  The model hands the replay filter one clock reading per submission, in the order
    of the submissions; `silent` then covers every replay whose MAC the filter still holds.  For
    connections handled by concurrent goroutines that order is the order in which they take the
    filter's mutex — *provided the clock is read under that mutex*: `parseClientHandshake` submits the
    MAC through `filter.TestAndSetNow` and **never** through `filter.TestAndSet(now, …)` with a reading
    of its own (it reads no `time.Now` itself; the hour comes from `getEpochHour`), and
    `TestAndSetNow` takes `Lock(); defer Unlock()` having touched only the immutable key, makes no
    `time.Now` call before the lock and one after it.  (With the reading taken by the caller two
    genuine handshakes arriving together on an empty or expired filter can present their times out of
    order; `compactFilter` takes that for a clock that jumped backwards and flushes the filter, after
    which a replay of an earlier handshake is *answered* — the repaired defect
    `concurrent-replay-on-empty-filter`.) -/
theorem replay_silence_needs_clock_under_lock :
    "filter.TestAndSetNow" ∈ O4.Facts.Obfs4.serverHandshake_parseClientHandshake_calls ∧
    "filter.TestAndSet" ∉ O4.Facts.Obfs4.serverHandshake_parseClientHandshake_calls ∧
    "time.Now" ∉ O4.Facts.Obfs4.serverHandshake_parseClientHandshake_calls ∧
    "getEpochHour" ∈ O4.Facts.Obfs4.serverHandshake_parseClientHandshake_calls ∧
    "time.Now" ∉ O4.Facts.Obfs4.func_newServerHandshake_calls ∧
    O4.Facts.Replayfilter.ReplayFilter_TestAndSetNow_locked = true ∧
    O4.Facts.Replayfilter.ReplayFilter_TestAndSetNow_prelock ⊆ ["key"] ∧
    "time.Now" ∉ O4.Facts.Replayfilter.ReplayFilter_TestAndSetNow_prelock_calls ∧
    "time.Now" ∈ O4.Facts.Replayfilter.ReplayFilter_TestAndSetNow_calls ∧
    "f.testAndSet" ∈ O4.Facts.Replayfilter.ReplayFilter_TestAndSetNow_calls := by
  decide

/-- full filter (capacity 3): the replay of the second-eldest value is still "seen", the eldest is forgotten -/
example : ((⟨10, 3, [⟨1, 0⟩, ⟨2, 1⟩, ⟨3, 2⟩]⟩ : RF.Filter).testAndSet 3 2).2 = true ∧
    ((⟨10, 3, [⟨1, 0⟩, ⟨2, 1⟩, ⟨3, 2⟩]⟩ : RF.Filter).testAndSet 3 1).2 = false := by decide


/-- **structural fact, regenerated from the Go source on every run (go/ast)**: every package-level
    variable (file-scope `var`) of the packages this property's mechanisms live in
    (transports/obfs4, common/replayfilter) is one of the names below — error values, fixed byte strings,
    flags and function hooks that the code only reads after initialisation.  The models treat all
    other state as owned by one connection / one object; a NEW package-level variable (a cache, a
    pool, a scratch buffer, a pre-keyed hash shared "to save allocations") is how such state comes
    to be shared between connections and goroutines, which compiles, passes the tests and typically
    needs true parallelism or a multi-connection history to misbehave.  Adding one breaks this
    theorem; the concurrent / multi-connection families of the harness then search for the failing
    schedule. -/
theorem no_new_package_level_state :
    O4.Facts.Obfs4.pkg_vars ⊆ ["ErrInvalidHandshake", "ErrMarkNotFoundYet", "ErrNtorFailed", "ErrReplayedHandshake", "biasedDist", "zeroPadBytes"] ∧
    O4.Facts.Replayfilter.pkg_vars ⊆ [] := by
  decide

end C03
