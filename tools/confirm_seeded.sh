#!/bin/bash
# confirm_seeded.sh <dir with patch.diff, demo/run.sh> : confirms in a scratch worktree of /repo that
#  (1) the demo passes on the unchanged tree, (2) the patch applies and compiles, (3) the 39 baseline
#  tests stay green with it, (4) the demo fails with it. Removes the worktree afterwards.
set -u
d=$(realpath "$1"); name=$(basename "$(dirname "$(dirname "$d")")")-$(basename "$d")-$$
export GOFLAGS=-mod=mod GOPROXY=off GOSUMDB=off GOTOOLCHAIN=local
wt=/tmp/confirm/$name; rm -rf "$wt"; mkdir -p /tmp/confirm
git -C /repo worktree add -q --detach "$wt" HEAD || exit 9
res=ok
( cd "$wt" && bash "$d/demo/run.sh" "$wt" >/tmp/confirm/$name.base.log 2>&1 ) || { echo "FAIL: demo does not pass on the unchanged tree"; res=bad; }
( cd "$wt" && git apply "$d/patch.diff" ) || { echo "FAIL: patch does not apply"; res=bad; }
( cd "$wt" && go build ./... ) || { echo "FAIL: does not compile"; res=bad; }
n=$(cd "$wt" && go test -vet=off -count=1 -json ./... 2>/dev/null | grep -c '"Action":"pass","Package":"[^"]*","Test"')
f=$(cd "$wt" && go test -vet=off -count=1 ./... 2>&1 | grep -c '^FAIL\|^--- FAIL')
echo "baseline tests with patch: $n passed, $f failures"
[ "$f" = 0 ] || res=bad
( cd "$wt" && bash "$d/demo/run.sh" "$wt" >/tmp/confirm/$name.mut.log 2>&1 ) && { echo "FAIL: demo still passes with the patch"; res=bad; }
git -C /repo worktree remove --force "$wt"
echo "confirm $name: $res"
[ $res = ok ]
