#!/bin/bash
# store_seeded.sh <Cxx> <i> [srcroot=/tmp/mut] [dest index=i]: confirm <srcroot>/Cxx/out/i and store it as /verif/seeded/Cxx-<dest>/
id=$1; i=$2; root=${3:-/tmp/mut}; j=${4:-$i}; src=$root/$id/out/$i; dst=/verif/seeded/$id-$j
[ -d $src ] || { echo "no $src"; exit 1; }
out=$(/verif/tools/confirm_seeded.sh $src 2>&1); echo "$out" | tail -2
echo "$out" | grep -q "confirm .*: ok" || { echo "NOT CONFIRMED $id-$i"; exit 1; }
mkdir -p $dst; cp -r $src/patch.diff $src/demo $dst/
python3 - "$src/meta.json" "$dst/meta.json" "$id" <<'PY'
import json,sys,subprocess
try: m=json.load(open(sys.argv[1]))
except Exception as e: m={"property":sys.argv[3],"note":"meta.json of the author unparsable: %s"%e}
m["origin"]="independent sub-agent given only the property record and a scratch worktree of /repo"
m["confirmed_by_coordinator"]={"ran":"tools/confirm_seeded.sh: scratch worktree of /repo HEAD; demo/run.sh passes unpatched; git apply; go build ./...; go test -vet=off -count=1 ./... (39 pass, 0 fail); demo/run.sh fails patched","repo_head":subprocess.check_output(["git","-C","/repo","rev-parse","--short","HEAD"],text=True).strip()}
json.dump(m,open(sys.argv[2],"w"),indent=1)
PY
echo "stored $dst"
