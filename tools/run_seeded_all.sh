#!/bin/bash
# run_seeded_all.sh [pattern] : evaluate the committed checks against every seeded change, in a
# separate clone of /verif and scratch worktrees of /repo (nothing in /repo or /verif is touched).
# Results: /verif/seeded/RESULTS.tsv (id, property, tier, caught?, first VIOLATION line).
pat=${1:-*}; tier=${2:-quick}
ev=${SEEDEVAL:-/root/seedeval/verif}
if [ ! -d $ev ]; then mkdir -p $(dirname $ev); git clone -q /verif $ev; fi
git -C $ev pull -q --ff-only 2>/dev/null || { rm -rf $ev; git clone -q /verif $ev; }
( cd $ev && ./check --setup >/dev/null 2>&1 )
out=/verif/seeded/RESULTS.tsv; touch $out
for d in /verif/seeded/$pat/; do
  id=$(basename $d); prop=${id%%-*}
  [ -f $d/patch.diff ] || continue
  [ -f $ev/props/$prop.json ] || { echo "$id: no check for $prop yet"; continue; }
  wt=/tmp/seedrun/$id; rm -rf $wt; mkdir -p /tmp/seedrun
  git -C /repo worktree add -q --detach $wt HEAD
  if ! git -C $wt apply $d/patch.diff 2>/dev/null && ! git -C $wt apply --3way $d/patch.diff >/dev/null 2>&1; then echo "$id: patch no longer applies"; git -C /repo worktree remove --force $wt; continue; fi
  git -C $wt reset -q 2>/dev/null
  if ! ( cd $wt && GOFLAGS=-mod=mod GOPROXY=off GOSUMDB=off GOTOOLCHAIN=local go build ./... ) >/dev/null 2>&1; then echo "$id: patch no longer compiles on the current tree"; git -C /repo worktree remove --force $wt; continue; fi
  log=$(cd $ev && VERIF_REPO=$wt timeout 1500 ./check $prop --tier $tier 2>&1); rc=$?
  first=$(echo "$log" | grep -a -m1 '^VIOLATION' | tr -cd '[:print:]'); detail=$(echo "$log" | grep -a -m1 '^  (' | cut -c1-160 | tr -cd '[:print:]')
  caught=no; [ $rc = 1 ] && [ -n "$first" ] && caught=yes
  also=$(python3 -c "import json,sys; print(json.load(open('$d/meta.json')).get('also_check',''))" 2>/dev/null)
  if [ $caught = no ] && [ -n "$also" ]; then
    # the changed code is anchored in another property: does that property's quick check report it?
    git -C $wt checkout -q -- . 2>/dev/null; git -C $wt apply $d/patch.diff
    log2=$(cd $ev && VERIF_REPO=$wt timeout 1500 ./check $also --tier $tier 2>&1); rc2=$?
    first2=$(echo "$log2" | grep -a -m1 '^VIOLATION' | tr -cd '[:print:]'); detail2=$(echo "$log2" | grep -a -m1 '^  (' | cut -c1-140 | tr -cd '[:print:]')
    if [ $rc2 = 1 ] && [ -n "$first2" ]; then caught=yes; first="$first2"; detail="[reported by the check of $also, where the changed code is anchored] $detail2"; fi
  fi
  if [ $caught = no ] && [ -x $d/demo/run.sh -o -f $d/demo/run.sh ]; then
    # does the change still break the property on the current (repaired) tree? its own demo decides
    if ( export GOFLAGS=-mod=mod GOPROXY=off GOSUMDB=off GOTOOLCHAIN=local; timeout 600 bash $d/demo/run.sh $wt >/dev/null 2>&1 ); then
      caught=neutralised; detail="the author's demonstration passes with the change applied to the current tree: it no longer breaks the property (depended on behaviour since repaired by a fix: commit)"
    fi
    git -C $wt checkout -q -- . 2>/dev/null; git -C $wt clean -fdq 2>/dev/null
  fi
  git -C /repo worktree remove --force $wt
  ( flock 9; grep -v "^$id	" $out > $out.tmp.$$; mv $out.tmp.$$ $out
  printf "%s\t%s\t%s\t%s\t%s\t%s\n" "$id" "$prop" "$tier" "$caught" "$first" "$detail" >> $out ) 9>/root/seedeval/.results.lock
  echo "$id: caught=$caught  $first $detail"
done
( flock 9; sort -o $out $out ) 9>/root/seedeval/.results.lock
