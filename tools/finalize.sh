#!/bin/bash
# finalize.sh: regenerate every derived document from the current state (run after the last merge and a
# quick run of every check on /repo): MANIFEST.json, lean/THEOREMS.md, DESIGN §0.1 numbers, seeded/README.md,
# HOOK_COMMITS.txt.
cd /verif
git -C /repo log --format='%h %s' --reverse bfc091c..HEAD | grep 'verif hooks' > HOOK_COMMITS.txt
./check --manifest | tail -1
python3 tools/theorem_inventory.py | tail -1
python3 tools/design_status.py
python3 tools/seeded_table.py
python3-vt - <<'PY'
import json, jsonschema, glob
m = json.load(open('/verif/MANIFEST.json'))
jsonschema.validate(m, json.load(open('/root/.vp/MANIFEST.schema.json')))
s = json.load(open('/root/.vp/EVIDENCE.schema.json'))
for f in sorted(glob.glob('/verif/evidence/C*.json')):
    e = json.load(open(f)); jsonschema.validate(e, s)
    c = e['coverage']
    assert c['obligations'] == c['discharged'] and not e.get('violations'), f
print("manifest + %d evidence files valid" % len(glob.glob('/verif/evidence/C*.json')))
PY
