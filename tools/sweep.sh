#!/bin/bash
# sweep.sh <tier> <seeds...> : run every claimed check for several VERIF_SEEDs on the unchanged tree
# (for `vp run`: works in a snapshot — builds there first). Prints one line per (check, seed).
tier=$1; shift
./check --setup >/dev/null 2>&1 || { echo "setup failed"; exit 1; }
for seed in "$@"; do
  for p in $(python3 -c "import json;print(' '.join(c['property_id'] for c in json.load(open('MANIFEST.json'))['checks']))"); do
    out=$(VERIF_SEED=$seed ./check $p --tier $tier 2>&1); rc=$?
    echo "seed=$seed $(echo "$out" | tail -1) rc=$rc"
    [ $rc = 0 ] || echo "$out" | grep -A1 '^VIOLATION' | head -6
  done
done
