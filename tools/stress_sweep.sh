#!/bin/bash
# stress_sweep.sh <burners> <tier> <seeds...>: the unchanged-tree sweep while <burners> busy loops compete for the
# CPUs (timing-dependent oracles must not raise false alarms on a loaded machine).
n=$1; shift
pids=""
for i in $(seq 1 $n); do ( while :; do :; done ) & pids="$pids $!"; done
trap "kill $pids 2>/dev/null" EXIT
$(dirname $0)/sweep.sh "$@"
