#!/bin/bash
# process_round.sh <srcroot> <offset> [ids...]: confirm+store every <srcroot>/<Cxx>/out/<i> as seeded/<Cxx>-<i+offset>,
# remove the scratch worktree, then evaluate the stored ones.
root=$1; off=$2; shift 2
ids=${@:-$(ls $root | grep '^C[0-9][0-9]$')}
for id in $ids; do
  for i in 1 2 3; do
    [ -d $root/$id/out/$i ] || continue
    j=$((i+off)); [ -d /verif/seeded/$id-$j ] && continue
    /verif/tools/store_seeded.sh $id $i $root $j 2>&1 | tail -1
  done
  git -C /repo worktree remove --force $root/$id/repo 2>/dev/null
done
cd /verif && git add -A seeded && git commit -qm "seeded: stored from $root ($ids)" -q
for id in $ids; do
  for i in 1 2 3; do j=$((i+off)); [ -d /verif/seeded/$id-$j ] && /verif/tools/run_seeded_all.sh "$id-$j" 2>&1 | cut -c1-260 | tail -1; done
done
/verif/tools/seeded_table.py
