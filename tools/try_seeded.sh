#!/bin/bash
# try_seeded.sh <patch.diff> <Cxx> [tier]: apply a seeded change to /repo, run the check, undo it.
set -u
p=$(realpath "$1"); prop=$2; tier=${3:-quick}
cd /repo && git diff --quiet || { echo "/repo is dirty"; exit 9; }
git -C /repo apply "$p" || exit 9
cd /verif && ./check "$prop" --tier "$tier"; rc=$?
git -C /repo checkout -- . ; git -C /repo clean -fdq
echo "check exit=$rc"
exit $rc
