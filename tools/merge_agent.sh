#!/bin/bash
# merge_agent.sh <branch-or-commit>: merge an agent branch into /verif main, dropping generated files
cd /verif
git merge --no-edit --no-commit "$1" 2>&1 | grep -i 'conflict' 
for f in lean/lakefile.toml $(git ls-files -u --cached | awk '{print $4}' | grep '^lean/Mains/' | sort -u); do git rm -q --cached "$f" 2>/dev/null; done
git ls-files lean/Mains lean/lakefile.toml | xargs -r git rm -q --cached 2>/dev/null
for f in $(git ls-files -u | awk "{print \$4}" | grep "^evidence/" | sort -u); do git checkout --theirs "$f" 2>/dev/null; git add "$f"; done
if git ls-files -u | grep -q .; then echo "UNRESOLVED:"; git ls-files -u | awk '{print $4}' | sort -u; exit 1; fi
git commit -qm "merge $1" && echo "merged $1"
