#!/usr/bin/env python3
"""Generate seeded/README.md: every seeded change, what it needs to manifest, and what the checks report."""
import json, os, glob
V = "/verif"
res = {}
for line in open(os.path.join(V, "seeded", "RESULTS.tsv"), errors="replace"):
    f = line.rstrip("\n").split("\t")
    if len(f) >= 4:
        res[f[0]] = f
rows = []
for d in sorted(glob.glob(os.path.join(V, "seeded", "C*-*"))):
    sid = os.path.basename(d)
    try:
        m = json.load(open(os.path.join(d, "meta.json")))
    except Exception:
        m = {}
    origin = "independent sub-agent" if "origin" in m else ("reverse of a fix: commit (pre-fix defect)" if "prefix" in sid else "hand-made by the check's author")
    title = m.get("title") or m.get("what") or m.get("description") or m.get("breaks") or ""
    needs = m.get("needs_to_manifest") or m.get("needs") or ""
    r = res.get(sid)
    if r:
        how = "no"
        if r[3] == "neutralised":
            how = "n/a: no longer breaks the property on the repaired tree (its own demo passes)"
        if r[3] == "yes":
            how = "impl-oracle (S) with replay" if "(impl-oracle)" in (r[5] if len(r) > 5 else "") else \
                  ("proof/tie broken, no-failing-input-found" if "no-failing-input-found" in r[4] else "yes")
            if "(correspondence)" in (r[5] if len(r) > 5 else ""):
                how = "correspondence (C), no-failing-input-found"
        sig = (r[5] if len(r) > 5 else "").strip()
        sig = sig.split(":")[0].replace("(impl-oracle) ", "").replace("(correspondence) ", "") if sig else ""
    else:
        how, sig = "not evaluated yet", ""
    rows.append((sid, sid.split("-")[0], origin, str(title)[:140].replace("|", "/"), str(needs)[:160].replace("|", "/"), how, sig))
out = ["# Seeded changes to Yawning/obfs4 and what the checks report",
       "",
       "Each directory holds `patch.diff`, the author's demonstration (`demo/`) and `meta.json`. The independent ones were",
       "written by fresh sub-agents that saw only the property record and a scratch worktree of /repo; each was confirmed by",
       "`tools/confirm_seeded.sh` (demo passes unpatched; patch applies, compiles, 39 baseline tests green; demo fails patched).",
       "`tools/run_seeded_all.sh` applies each to a scratch worktree and runs the property's quick check (`VERIF_REPO=<worktree>`).",
       "",
       "| id | prop | origin | change | needs to manifest | quick check reports | signature |",
       "|---|---|---|---|---|---|---|"]
for r in rows:
    out.append("| %s | %s | %s | %s | %s | %s | %s |" % r)
n_ind = [r for r in rows if r[2].startswith("independent")]
caught = [r for r in n_ind if not r[5].startswith("no") and not r[5].startswith("n/a")]
out += ["", "Independent changes: %d stored, %d reported by the quick check of their property, %d missed, %d no longer applicable (neutralised by a later fix: commit), %d not evaluated yet." % (
    len(n_ind), len([r for r in caught if r[5] != "not evaluated yet"]), len([r for r in n_ind if r[5] == "no"]),
    len([r for r in n_ind if r[5].startswith("n/a")]), len([r for r in n_ind if r[5] == "not evaluated yet"]))]
try:
    stale = open(os.path.join(V, "seeded", "STALE_AT_HEAD.txt")).read().split()
except Exception:
    stale = []
if stale:
    out += ["", "Evaluated against an earlier HEAD of /repo: the patches of " + ", ".join(stale) +
            " no longer apply (or compile) on the current tree because later `fix:` commits (F12, F15) or hook files touched the same lines;"
            " their rows show the result of their last evaluation. C05-16 was re-based by hand (original kept as `patch.orig.diff`)."]
open(os.path.join(V, "seeded", "README.md"), "w").write("\n".join(out) + "\n")
print(out[-1])
