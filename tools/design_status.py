#!/usr/bin/env python3
"""Refresh the numbers of DESIGN.md §0.1 (theorem counts, quick-tier case counts, total) from evidence/*.json.
The explanatory text of each row is kept."""
import json, re, os
V = "/verif"
p = os.path.join(V, "DESIGN.md")
s = open(p).read()
total = 0
def fmt(n):
    return f"{n:,}".replace(",", " ")
for i in range(1, 21):
    pid = "C%02d" % i
    e = json.load(open(os.path.join(V, "evidence", pid + ".json")))
    c = e["coverage"]
    total += c["obligations"]
    pat = re.compile(r"^\| %s \| \d+ \| [^|]* \|" % pid, re.M)
    new = "| %s | %d | %s (%s) |" % (pid, c["obligations"], fmt(c.get("evaluations") or 0), fmt(c.get("distinct_nontrivial") or 0))
    s, n = pat.subn(new, s, count=1)
    if n != 1:
        print("row not found:", pid)
s = re.sub(r"not-applicable\. \d+ property theorems", "not-applicable. %d property theorems" % total, s, count=1)
open(p, "w").write(s)
print("DESIGN §0.1 refreshed:", total, "theorems")
